#!/bin/bash
# usage: seed_eval.sh <Cxx> <seed-name> <demo-pkg-dir>   (reads /tmp/seed-out/<Cxx>/{patch.diff,seed_demo_test.go,notes.md})
# Confirms a sub-agent's seeded change myself in a fresh scratch worktree: compiles, suite unchanged,
# demo fails with / passes without; then runs the property's check against it and stores it under /verif/seeded.
export GOFLAGS=-mod=mod GOPROXY=off GOSUMDB=off GOTOOLCHAIN=local
P=$1; NAME=$2; PKG=$3; SRC=${SEED_SRC:-/tmp/seed-out/$P}
W=$(mktemp -d /tmp/seedchk-XXXXXX); rmdir $W
git -C /repo worktree add -q --detach $W HEAD || exit 2
trap 'git -C /repo worktree remove --force '$W' >/dev/null 2>&1' EXIT
cd $W
cp $SRC/seed_demo_test.go $W/$PKG/zz_seed_demo_test.go
base_demo=$(go test -vet=off -count=1 -gcflags=all=-l -run 'TestSeedDemo' ./$PKG 2>&1 | tail -3)
echo "demo on unchanged tree: $(echo "$base_demo" | tail -1)"
rm $W/$PKG/zz_seed_demo_test.go
/verif/scripts/baseline_off.sh $W > /tmp/seedchk_base.txt 2>&1; echo "suite before: $(tail -1 /tmp/seedchk_base.txt)"
git apply $SRC/patch.diff || { echo "PATCH DOES NOT APPLY"; exit 1; }
go build ./... || { echo "DOES NOT COMPILE"; exit 1; }
/verif/scripts/baseline_off.sh $W > /tmp/seedchk_after.txt 2>&1; echo "suite after:  $(tail -1 /tmp/seedchk_after.txt)"
cp $SRC/seed_demo_test.go $W/$PKG/zz_seed_demo_test.go
seed_demo=$(go test -vet=off -count=1 -gcflags=all=-l -run 'TestSeedDemo' ./$PKG 2>&1 | tail -5)
echo "demo with the change: $(echo "$seed_demo" | tail -1)"
rm $W/$PKG/zz_seed_demo_test.go
out=$(/verif/bin/govc check --property $P --repo $W --out $W/.govc-out 2>/dev/null); rc=$?
echo "check rc=$rc: $(grep -m3 '^VIOLATION' <<<"$out" | sed 's/replay=[^ ]* //')"
mkdir -p /verif/seeded/$NAME
cp $SRC/patch.diff /verif/seeded/$NAME/patch.diff; cp $SRC/seed_demo_test.go /verif/seeded/$NAME/; cp $SRC/notes.md /verif/seeded/$NAME/notes.md 2>/dev/null
python3 - "$P" "$NAME" "$PKG" "$rc" "$(grep -m1 '^VIOLATION' <<<"$out" | sed 's/.*obligation=//')" "$(echo "$base_demo" | tail -1)" "$(echo "$seed_demo" | tail -1)" "$(tail -1 /tmp/seedchk_base.txt)" "$(tail -1 /tmp/seedchk_after.txt)" <<'PY'
import json,sys
p,name,pkg,rc,obl,base,seed,sb,sa=sys.argv[1:10]
meta={"property":p,"name":name,"demo_package":pkg,"source":"independent sub-agent given only the property text and a scratch worktree without the contract files",
 "confirmed":{"demo_on_unchanged_tree":base,"demo_with_change":seed,"suite_before":sb,"suite_after":sa},
 "check_result":{"exit_code":int(rc),"first_obligation":obl},
 "what_i_ran":"scripts/seed_eval.sh: fresh worktree of /repo HEAD, demo without patch, baseline suite, git apply patch.diff, go build, baseline suite, demo with patch, govc check --property (worktree removed afterwards)"}
json.dump(meta,open(f"/verif/seeded/{name}/meta.json","w"),indent=1)
PY
