#!/bin/bash
# Must-fail corpus: every patch under mutants/<P>/ and seeded/<id>/patch.diff must make the
# property's check exit 1 with a VIOLATION line; every patch under harmless/<P>/ must keep it at exit 0.
# Runs on scratch copies outside /repo and /verif, removed afterwards.
export GOFLAGS=-mod=mod GOPROXY=off GOSUMDB=off GOTOOLCHAIN=local CGO_ENABLED=0
V=/verif
only="$1"
fail=0
run_one() { # patch prop expect
  local patch=$1 prop=$2 expect=$3
  local d; d=$(mktemp -d /tmp/govc-selftest-XXXXXX)
  rsync -a --exclude .git /repo/ "$d/repo/"
  if ! (cd "$d/repo" && patch -p1 -s < "$patch"); then echo "SELFTEST-ERROR cannot apply $patch"; rm -rf "$d"; return 1; fi
  local out; out=$($V/bin/govc check --property "$prop" --repo "$d/repo" --out "$d/out" 2>/dev/null); local rc=$?
  rm -rf "$d"
  if [ "$expect" = fail ]; then
    if [ $rc -eq 1 ] && grep -q "^VIOLATION property=$prop" <<<"$out"; then echo "caught   $prop $(basename $(dirname $patch))/$(basename $patch): $(grep -m1 '^VIOLATION' <<<"$out" | sed 's/.*obligation=//')"; else echo "MISSED   $prop $patch (rc=$rc)"; return 1; fi
  else
    if [ $rc -eq 0 ]; then echo "quiet    $prop $patch"; else echo "FALSE-ALARM $prop $patch: $(grep -m1 '^VIOLATION\|^ENGINE' <<<"$out")"; return 1; fi
  fi
}
pids=()
for p in $V/mutants/*/*.patch; do
  prop=$(basename $(dirname $p)); [ -n "$only" ] && [ "$only" != "$prop" ] && continue
  run_one "$p" "$prop" fail & pids+=($!)
  while [ $(jobs -r | wc -l) -ge 4 ]; do sleep 0.5; done
done
for m in $V/seeded/*/meta.json; do
  [ -f "$m" ] || continue
  prop=$(python3 -c "import json,sys;print(json.load(open('$m'))['property'])"); [ -n "$only" ] && [ "$only" != "$prop" ] && continue
  run_one "$(dirname $m)/patch.diff" "$prop" fail & pids+=($!)
  while [ $(jobs -r | wc -l) -ge 4 ]; do sleep 0.5; done
done
for p in $V/harmless/*/*.patch; do
  [ -f "$p" ] || continue
  prop=$(basename $(dirname $p)); [ -n "$only" ] && [ "$only" != "$prop" ] && continue
  run_one "$p" "$prop" pass & pids+=($!)
  while [ $(jobs -r | wc -l) -ge 4 ]; do sleep 0.5; done
done
for pid in "${pids[@]}"; do wait $pid || fail=1; done
exit $fail
