#!/bin/bash
# Runs the repository's test suite with the verif build tag OFF and compares
# with the stable baseline (45 tests) of /root/.vp/BASELINE.json.
export GOFLAGS=-mod=mod GOPROXY=off GOSUMDB=off GOTOOLCHAIN=local
cd "${1:-/repo}" || exit 2
out=$(mktemp)
go test -mod=mod -json -vet=off -count=1 -timeout 25m ./... > "$out" 2>/dev/null
python3 - "$out" <<'PY'
import json,sys
passed=set()
for l in open(sys.argv[1]):
    try: e=json.loads(l)
    except Exception: continue
    if e.get('Action')=='pass' and e.get('Test'):
        passed.add(e['Package']+'::'+e['Test'])
base=json.load(open('/root/.vp/BASELINE.json'))['stable_pass']
missing=[t for t in base if t not in passed]
print(f"baseline tests: {len(base)} passed-now: {len(base)-len(missing)}")
for m in missing: print("MISSING", m)
sys.exit(1 if missing else 0)
PY
rc=$?
rm -f "$out"
exit $rc
