#!/usr/bin/env python3
# Generates /verif/MANIFEST.json from scripts/manifest_src.json (claims) so that it always validates.
import json,subprocess,sys
src=json.load(open('/verif/scripts/manifest_src.json'))
hooks_commits=subprocess.run(['git','-C','/repo','log','--format=%h %s'],capture_output=True,text=True).stdout.splitlines()
hook=[l.split()[0] for l in hooks_commits if ' verif:' in ' '+l]
checks=[]
for c in src['checks']:
    pid=c['property_id']
    checks.append({
        "property_id":pid,
        "quick_cmd":f"./check.sh {pid} quick",
        "thorough_cmd":f"./check.sh {pid} thorough",
        "evidence_file":f"/verif/evidence/{pid}.json",
        "replay_cmd_template":"./bin/govc replay {path}",
        "engine":"govc",
        "level_claimed":{"category":c.get("category","proof"),"text":c["text"],"design_ref":c.get("design_ref","DESIGN.md §4 "+pid)},
        "level_note":c["note"],
        "technique":c.get("technique","contract-based deductive verification: weakest-precondition VCs over go/ssa of the real functions, contracts in //@ comment files, discharged by z3/cvc5"),
    })
m={
 "version":1,
 "setup_cmd":"cd /verif/govc && GOFLAGS=-mod=mod GOPROXY=off GOSUMDB=off GOTOOLCHAIN=local CGO_ENABLED=0 go build -o /verif/bin/govc .",
 "hooks":{"guard":"verif","enable":"go/packages loads /repo with -tags=verif; the only guarded files are comment-only contracts_verif*.go (//go:build verif) holding //@ contracts; no run-time hooks (replay uses go test -overlay)",
          "baseline_off_cmd":"/verif/scripts/baseline_off.sh","source_commits":hook,"add_only":True},
 "engines":[{"name":"govc","path":"/verif/govc","serves_properties":[c['property_id'] for c in src['checks']],
             "kind_free_text":"home-made deductive verifier for Go: go/packages+go/ssa front end, path-wise weakest-precondition VC generation with loop invariants and modular call contracts, exact bit-vector integers, Burstall-Bornat heap, solver race z3-new/z3/cvc5, counterexample replay through go test -overlay"}],
 "checks":checks,
 "notes":src.get("notes",""),
 "not_applicable":src["not_applicable"],
}
json.dump(m,open('/verif/MANIFEST.json','w'),indent=1)
import jsonschema
jsonschema.validate(m,json.load(open('/root/.vp/MANIFEST.schema.json')))
print("MANIFEST ok:",len(checks),"checks,",len(m['not_applicable']),"not applicable")
