#!/bin/bash
# usage: ./check.sh <property> [quick|thorough]
# Runs the contract verifier for one property against /repo's current working tree.
export GOFLAGS=-mod=mod GOPROXY=off GOSUMDB=off GOTOOLCHAIN=local CGO_ENABLED=0
cd "$(dirname "$0")" || exit 2
if [ ! -x bin/govc ] || [ -n "$(find govc -name '*.go' -newer bin/govc 2>/dev/null | head -1)" ]; then
  (cd govc && go build -o ../bin/govc .) || { echo "govc build failed"; exit 2; }
fi
exec ./bin/govc check --property "$1" --tier "${2:-${VERIF_TIER:-quick}}" 2> >(grep -v '^load: ' >&2)
