package main

func init() {
	registerProperty(&PropertyConfig{
		ID:    "C16",
		Level: "other",
		Explain: "two parts, reported separately: (1) PROVED (deductive): every consumer of the decoder under contract (ParseIns, fixIns, EncodeAddress/DecodeAddress, fixOriginFuncToTrampoline) is verified against the decoder's written-down contract, so a decoder result violating it is the only way they can go wrong; " +
			"(2) BOUNDED stand-in for the decoder's own body (a 900-line interpreter of a 9 900-line generated table, beyond this VC generator): run-time contract monitor over every instruction of real Go binaries and over all 2^16 two-byte prefixes x seeded random tails, plus a differential comparison (length, opcode, PC-relative width and offset) with the toolchain's decoder. Part (2) is not a proof and is not counted in obligations/discharged.",
		Trusted: []string{"x86asm.Decode's body is NOT verified deductively (bounded monitor + differential test only)", "the toolchain's x86asm is the reference for 'exact on compiler-emitted code'"},
		Aux:     func(o *Options, scratch string) *AuxResult { return runDecoderAux(o, scratch, "c16") },
	})
	registerProperty(&PropertyConfig{
		ID:      "C17",
		Level:   "other",
		Explain: "BOUNDED/EXHAUSTIVE ENUMERATION, not deduction: goom's arm64 decoder (copied mechanically from /repo on every run) is executed on instruction words under recover() (Decode and String) and compared with the toolchain's arm64asm on decodability, opcode and the PC-relative operand of branch/address forms, skipping the SYS-space encodings goom deliberately leaves undecoded. Quick tier: stride 4099 over all 2^32 words plus every 257th branch/ADR-class word; thorough tier: all 2^32 words (exhaustive: true). No deductive obligation is claimed for C17.",
		Trusted: []string{"the toolchain's arm64asm is the reference", "arm64 code is executed on amd64 (pure Go decoder)"},
		Aux:     func(o *Options, scratch string) *AuxResult { return runDecoderAux(o, scratch, "c17") },
	})
}
