package main

// exec_builtin.go — builtins (len, cap, append, copy, recover, ...) and closure inlining.

import (
	"fmt"
	"go/types"

	"golang.org/x/tools/go/ssa"
)

func (ex *Exec) execBuiltin(st *State, in ssa.Instruction, b *ssa.Builtin, c *ssa.CallCommon, args []Val, res ssa.Value) []*State {
	ctx := ex.ctx
	ti := types.Typ[types.Int]
	switch b.Name() {
	case "len", "cap":
		a := args[0]
		var t string
		switch {
		case a.S == sortSl && b.Name() == "len":
			t = slLen(a.T)
		case a.S == sortSl:
			t = slCap(a.T)
		case a.S == sortStr:
			t = sx("str_len", a.T)
		default:
			if at, ok := c.Args[0].Type().Underlying().(*types.Array); ok {
				t = bv64(at.Len())
			} else if pt, ok := c.Args[0].Type().Underlying().(*types.Pointer); ok {
				t = bv64(pt.Elem().Underlying().(*types.Array).Len())
			} else if _, ok := c.Args[0].Type().Underlying().(*types.Map); ok {
				f := ctx.declFun("map_len", []string{sortRef, bvSort(64)}, bvSort(64))
				t = sx(f, a.T, bv64(int64(st.havocEpoch)))
				st.setVal(res, Val{T: t, S: bvSort(64), Ty: ti})
				st.assume(sx("bvsle", bv64(0), st.fr.vals[res].T))
				return []*State{st}
			} else {
				panic(unsupported("len of " + a.S))
			}
		}
		st.setVal(res, Val{T: t, S: bvSort(64), Ty: ti})
		return []*State{st}
	case "append":
		return ex.execAppend(st, in, c, args, res)
	case "copy":
		dst, src := args[0], args[1]
		if src.S == sortStr {
			panic(unsupported("copy from string"))
		}
		et := c.Args[0].Type().Underlying().(*types.Slice).Elem()
		es := ctx.sortFor(et)
		h := ctx.elemHeap(es)
		n := st.define("copyn", bvSort(64), smtIte(sx("bvslt", slLen(dst.T), slLen(src.T)), slLen(dst.T), slLen(src.T)))
		cur := st.hget(h)
		oldDst := sx("select", cur, slArr(dst.T))
		srcArr := sx("select", cur, slArr(src.T))
		na := st.freshConst("copied", arraySort(bvSort(64), es))
		j := fmt.Sprintf("q!j!%d", ex.counter.Add(1))
		// memmove semantics: source read from the pre-state
		st.assume(fmt.Sprintf("(forall ((%s (_ BitVec 64))) (! (= (select %s %s) (ite (bvult (bvsub %s %s) %s) (select %s (bvadd %s (bvsub %s %s))) (select %s %s))) :pattern ((select %s %s))))",
			j, na, j, j, slOff(dst.T), n, srcArr, slOff(src.T), j, slOff(dst.T), oldDst, j, na, j))
		st.hset(h, sx("store", cur, slArr(dst.T), na))
		if res != nil {
			st.setVal(res, Val{T: n, S: bvSort(64), Ty: ti})
		}
		return []*State{st}
	case "recover":
		if st.panicV != nil && st.fr.isDeferred {
			v := *st.panicV
			st.panicV = nil
			st.recovered = true
			st.fr.vals[res] = Val{T: v.T, S: sortIfc, Ty: res.Type()}
		} else {
			st.fr.vals[res] = Val{T: "iface_nil", S: sortIfc, Ty: res.Type()}
		}
		return []*State{st}
	case "print", "println":
		return []*State{st}
	case "delete":
		m, k := args[0], args[1]
		mt := c.Args[0].Type().Underlying().(*types.Map)
		ks, vs := ctx.sortFor(mt.Key()), ctx.sortFor(mt.Elem())
		_, ph := ctx.mapHeaps(ks, vs)
		hp := st.hget(ph)
		// delete on a nil map is a no-op; a nil map has no present keys in this model
		st.hset(ph, sx("store", hp, m.T, sx("store", sx("select", hp, m.T), k.T, "false")))
		return []*State{st}
	case "ssa:wrapnilchk":
		st.fr.vals[res] = args[0]
		return []*State{st}
	case "min", "max":
		a, bb := args[0], args[1]
		lt := ex.binop(st, 40 /* token.LSS */, a, bb, types.Typ[types.Bool])
		if b.Name() == "min" {
			st.setVal(res, Val{T: smtIte(lt.T, a.T, bb.T), S: a.S})
		} else {
			st.setVal(res, Val{T: smtIte(lt.T, bb.T, a.T), S: a.S})
		}
		return []*State{st}
	}
	panic(unsupported("builtin " + b.Name()))
}

// execAppend models append(s, t...) exactly, forking on "fits in capacity".
func (ex *Exec) execAppend(st *State, in ssa.Instruction, c *ssa.CallCommon, args []Val, res ssa.Value) []*State {
	ctx := ex.ctx
	s, t := args[0], args[1]
	if t.S == sortStr {
		panic(unsupported("append of a string"))
	}
	et := c.Args[0].Type().Underlying().(*types.Slice).Elem()
	es := ctx.sortFor(et)
	h := ctx.elemHeap(es)
	newLen := st.define("applen", bvSort(64), sx("bvadd", slLen(s.T), slLen(t.T)))
	fits := sx("bvsle", newLen, slCap(s.T))
	build := func(st *State, inPlace bool) *State {
		cur := st.hget(h)
		srcArr := sx("select", cur, slArr(t.T))
		na := st.freshConst("appended", arraySort(bvSort(64), es))
		j := fmt.Sprintf("q!j!%d", ex.counter.Add(1))
		var rv string
		if inPlace {
			st.assume(fits)
			oldArr := sx("select", cur, slArr(s.T))
			start := sx("bvadd", slOff(s.T), slLen(s.T))
			st.assume(fmt.Sprintf("(forall ((%s (_ BitVec 64))) (! (= (select %s %s) (ite (bvult (bvsub %s %s) %s) (select %s (bvadd %s (bvsub %s %s))) (select %s %s))) :pattern ((select %s %s))))",
				j, na, j, j, start, slLen(t.T), srcArr, slOff(t.T), j, start, oldArr, j, na, j))
			st.hset(h, sx("store", cur, slArr(s.T), na))
			rv = mkSlice(slArr(s.T), slOff(s.T), newLen, slCap(s.T))
		} else {
			st.assume(smtNot(fits))
			ref := st.freshRef("app")
			oldArr := sx("select", cur, slArr(s.T))
			ncap := st.freshConst("appcap", bvSort(64))
			st.assume(smtAnd(sx("bvsle", newLen, ncap), sx("bvult", ncap, bv64(1<<48))))
			// [0,len(s)) from s, [len(s), newLen) from t
			st.assume(fmt.Sprintf("(forall ((%s (_ BitVec 64))) (! (= (select %s %s) (ite (bvult %s %s) (select %s (bvadd %s %s)) (select %s (bvadd %s (bvsub %s %s))))) :pattern ((select %s %s))))",
				j, na, j, j, slLen(s.T), oldArr, slOff(s.T), j, srcArr, slOff(t.T), j, slLen(s.T), na, j))
			st.hset(h, sx("store", cur, ref, na))
			rv = mkSlice(ref, bv64(0), newLen, ncap)
		}
		st.setVal(res, Val{T: rv, S: sortSl})
		return st
	}
	// a nil/empty-capacity slice never fits unless nothing is appended; both branches stay sound
	s2 := st.clone()
	return []*State{build(st, true), build(s2, false)}
}

// inlineClosure runs the body of a closure made in the function under
// verification as part of that function (closures are syntactically part of
// it; they have no contract of their own unless one is given).
func (ex *Exec) inlineClosure(st *State, in ssa.Instruction, clo *Closure, args []Val, res ssa.Value) []*State {
	fn := clo.Fn.(*ssa.Function)
	if fn.Blocks == nil {
		panic(unsupported("closure without body"))
	}
	depth := 0
	for f := st.fr; f != nil; f = f.parent {
		depth++
	}
	if depth > 6 {
		panic(unsupported("closure nesting too deep"))
	}
	nf := &Frame{fn: fn, vals: map[ssa.Value]Val{}, parent: st.fr, loops: findLoops(fn), ord: siteNames(fn), names: map[string]nameBinding{}}
	if len(nf.loops) > 0 {
		panic(unsupported("loop inside an inlined closure " + fn.Name()))
	}
	for i, p := range fn.Params {
		nf.vals[p] = args[i]
	}
	for i, fv := range fn.FreeVars {
		nf.vals[fv] = clo.Bindings[i]
	}
	nf.retRes = res
	st.fr = nf
	// the driver notices the frame switch: it continues at the entry block of the new frame
	st.enter = true
	return []*State{st}
}
