package main

const c18Replay = `package arg

import (
	"reflect"
	"testing"
)

// interface-typed parameter holding values of different dynamic types that are not Go-equal
func TestGovcReplay(t *testing.T) {
	for _, p := range [][2]interface{}{{int8(1), int64(1)}, {true, "true"}} {
		a, b := p[0], p[1]
		l, r := reflect.ValueOf(&a).Elem(), reflect.ValueOf(&b).Elem()
		if a != b && equal(l, r) {
			t.Errorf("equal accepts interface{}(%#v) and interface{}(%#v) although they are not equal in Go", a, b)
		}
	}
}
`

func init() {
	registerProperty(&PropertyConfig{
		ID:      "C18",
		Explain: "kind-dispatch contracts on arg.equal and its helpers over the reflect model: nil handling, which leaf decides each kind, no panic on valid same-typed input, no side effects",
		Trusted: []string{"reflect model", "leaf axioms: reflect.DeepEqual and fmt.Sprintf(\"%v\") are uninterpreted (their agreement with Go == is assumed, floats ±0/NaN excluded)", "tryTo* string/number conversions trusted pure", "symmetry equal(l,r)==equal(r,l) is a two-call (relational) property and is not decided"},
		Replay: func(o *Options, g *groupResult, model map[string]string) (string, string, bool) {
			return "arg", c18Replay, true
		},
	})
}
