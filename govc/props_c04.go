package main

const c04Replay = `package mocker

import "testing"

//go:noinline
func govcVariadic(a int, rest ...string) int { return len(rest) + a }

// public-API history: a conditional stub on a variadic function with a leading fixed parameter
func TestGovcReplay(t *testing.T) {
	defer func() {
		if r := recover(); r != nil {
			t.Fatalf("calling a stubbed variadic function with a leading fixed parameter panicked: %v", r)
		}
	}()
	mk := Create()
	defer mk.Reset()
	mk.Func(govcVariadic).Return(7).When(1, "x", "y").Return(42)
	if got := govcVariadic(1, "x", "y"); got != 42 {
		t.Fatalf("When(1, \"x\", \"y\") did not match the call govcVariadic(1, \"x\", \"y\"): got %d, want 42", got)
	}
	if got := govcVariadic(2, "x"); got != 7 {
		t.Fatalf("default not served: got %d", got)
	}
}
`

func init() {
	registerProperty(&PropertyConfig{
		ID:      "C04",
		Explain: "matcher contracts over the reflect model: DefaultMatcher.Match never panics on arguments as reflect.MakeFunc delivers them (receiver dropped, only the variadic tail expanded) and accepts exactly when every expression accepts its positional argument; When.invoke serves the first matching condition, else the default, else panics",
		Trusted: []string{"reflect model", "arg.Expr / Matcher implementations honour their interface contracts (Eval/Match are pure predicates)"},
		Replay: func(o *Options, g *groupResult, model map[string]string) (string, string, bool) {
			return ".", c04Replay, true
		},
	})
}
