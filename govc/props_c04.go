package main

import "strings"

const c04Replay = `package mocker

import "testing"

//go:noinline
func govcVariadic(a int, rest ...string) int { return len(rest) + a }

// public-API history: a conditional stub on a variadic function with a leading fixed parameter
func TestGovcReplay(t *testing.T) {
	defer func() {
		if r := recover(); r != nil {
			t.Fatalf("calling a stubbed variadic function with a leading fixed parameter panicked: %v", r)
		}
	}()
	mk := Create()
	defer mk.Reset()
	mk.Func(govcVariadic).Return(7).When(1, "x", "y").Return(42)
	if got := govcVariadic(1, "x", "y"); got != 42 {
		t.Fatalf("When(1, \"x\", \"y\") did not match the call govcVariadic(1, \"x\", \"y\"): got %d, want 42", got)
	}
	if got := govcVariadic(2, "x"); got != 7 {
		t.Fatalf("default not served: got %d", got)
	}
}
`

const c04MatchesReplay = `package mocker

import (
	"reflect"
	"testing"

	"github.com/tencent/goom/arg"
)

func govcSimple(a int) int { return a }

// public-API history: a default, then Matches with two pairs, then calls that match neither pair
func TestGovcReplay(t *testing.T) {
	when := NewWhen(reflect.TypeOf(govcSimple))
	when.Return(-1).Matches(arg.Pair{Args: 1, Return: 5}, arg.Pair{Args: 2, Return: 6})
	for k := 0; k < 4; k++ {
		if got := when.Eval(9)[0]; got != -1 {
			t.Errorf("unmatched call #%d returned %v, want the configured default -1", k+1, got)
		}
	}
	bare := NewWhen(reflect.TypeOf(govcSimple))
	bare.Matches(arg.Pair{Args: 1, Return: 5})
	func() {
		defer func() {
			if recover() == nil {
				t.Errorf("a call matching no condition returned a value although no default was configured")
			}
		}()
		bare.Eval(9)
	}()
}
`

func init() {
	registerProperty(&PropertyConfig{
		ID:      "C04",
		Explain: "matcher contracts over the reflect model: DefaultMatcher.Match never panics on arguments as reflect.MakeFunc delivers them (receiver dropped, only the variadic tail expanded) and accepts exactly when every expression accepts its positional argument; When.invoke serves the first matching condition, else the default, else panics",
		Trusted: []string{"reflect model", "arg.Expr / Matcher implementations honour their interface contracts (Eval/Match are pure predicates)"},
		Replay: func(o *Options, g *groupResult, model map[string]string) (string, string, bool) {
			if strings.Contains(g.name, ".Matches#") {
				return ".", c04MatchesReplay, true
			}
			return ".", c04Replay, true
		},
	})
}
