package main

// props.go — per-property configuration, violation reports, evidence, replay.

import (
	"encoding/json"
	"fmt"
	"os"
	"os/exec"
	"path/filepath"
	"sort"
	"strings"

	"golang.org/x/tools/go/ssa"
)

type AuxResult struct {
	Lines      []string
	Violations int
	Coverage   map[string]interface{}
	Assume     []string
}

type PropertyConfig struct {
	ID      string
	Arches  []string
	ArchOf  map[string]string // short function name -> only this GOARCH
	Level   string            // evidence level when everything is discharged
	Explain string
	Trusted []string // property-level trusted base (always listed)
	Aux     func(o *Options, scratch string) *AuxResult
	// Replay builds an in-package test from a model; returns package dir (relative to repo), file content.
	Replay func(o *Options, g *groupResult, model map[string]string) (pkgDir, content string, ok bool)
}

func (pc *PropertyConfig) archOf(short string) string {
	if pc.ArchOf == nil {
		return ""
	}
	return pc.ArchOf[short]
}

func isArchFile(ex *Exec, fn *ssa.Function, arch string) bool {
	pos := ex.prog.Fset.Position(fn.Pos())
	return strings.Contains(filepath.Base(pos.Filename), "_"+arch)
}

var propertyConfigs = map[string]*PropertyConfig{}

func registerProperty(pc *PropertyConfig) {
	if len(pc.Arches) == 0 {
		pc.Arches = []string{"amd64"}
	}
	if pc.Level == "" {
		pc.Level = "proof"
	}
	propertyConfigs[pc.ID] = pc
}

type Violation struct {
	Obligation string `json:"obligation"`
	Clause     string `json:"clause"`
	Status     string `json:"status"`
	Solver     string `json:"solver"`
	ReplayPath string `json:"replay"`
	Reproduced bool   `json:"reproduced"`
	Model      map[string]string
	Output     string
}

// makeViolation writes the replay file for a failed obligation and, where the
// solver produced a model and the property has a replay driver, runs the
// counterexample against the real code.
func makeViolation(o *Options, pc *PropertyConfig, ar *archRun, g *groupResult) Violation {
	w := g.witness
	v := Violation{Obligation: g.name, Clause: w.Clause, Status: w.Result.Status, Solver: w.Result.Solver, Output: w.Result.Output}
	dir := filepath.Join(o.Out, "replays", o.Property)
	os.MkdirAll(dir, 0o755)
	base := filepath.Join(dir, smtIdent(g.name))
	model := map[string]string{}
	for name, term := range w.Inputs {
		if val, ok := w.Result.Model[term]; ok {
			model[name] = val
		}
	}
	for _, rt := range w.ResultTerms {
		kv := strings.SplitN(rt, "=", 2)
		if val, ok := w.Result.Model[kv[1]]; ok {
			model[kv[0]] = val
		}
	}
	v.Model = model
	meta := map[string]interface{}{
		"property": o.Property, "obligation": g.name, "clause": w.Clause, "status": w.Result.Status,
		"solver": w.Result.Solver, "solver_output": truncate(w.Result.Output, 4000), "model": model,
		"path": w.Trace, "arch": ar.arch, "all_solvers": w.Result.All,
	}
	v.ReplayPath = base + ".json"
	reproduced := false
	if pc.Replay != nil && !o.NoReplay {
		if pkgDir, content, ok := pc.Replay(o, g, model); ok {
			goFile := base + "_test.go.txt"
			os.WriteFile(goFile, []byte(content), 0o644)
			meta["replay_test"] = goFile
			meta["replay_pkg"] = pkgDir
			out, failed := runReplay(o, pkgDir, content)
			meta["replay_output"] = truncate(out, 4000)
			meta["replay_failed_on_real_code"] = failed
			reproduced = failed
		}
	}
	v.Reproduced = reproduced
	meta["reproduced"] = reproduced
	data, _ := json.MarshalIndent(meta, "", " ")
	os.WriteFile(v.ReplayPath, data, 0o644)
	return v
}

func truncate(s string, n int) string {
	if len(s) > n {
		return s[:n] + "...[truncated]"
	}
	return s
}

// runReplay injects an in-package test through -overlay (the repository is
// not written) and reports whether it FAILED, i.e. the counterexample
// reproduces on the real code.
func runReplay(o *Options, pkgDir, content string) (string, bool) {
	tmp, err := os.MkdirTemp("", "govc-replay-")
	if err != nil {
		return err.Error(), false
	}
	defer os.RemoveAll(tmp)
	src := filepath.Join(tmp, "zz_replay_test.go")
	os.WriteFile(src, []byte(content), 0o644)
	target := filepath.Join(o.Repo, pkgDir, "zz_govc_replay_test.go")
	ov := map[string]map[string]string{"Replace": {target: src}}
	ovData, _ := json.Marshal(ov)
	ovFile := filepath.Join(tmp, "ov.json")
	os.WriteFile(ovFile, ovData, 0o644)
	cmd := exec.Command("go", "test", "-overlay", ovFile, "-vet=off", "-count=1", "-timeout", "60s", "-gcflags=all=-l", "-run", "^TestGovcReplay$", "./"+pkgDir)
	cmd.Dir = o.Repo
	cmd.Env = append(os.Environ(), "GOFLAGS=-mod=mod", "GOPROXY=off", "GOSUMDB=off", "GOTOOLCHAIN=local")
	out, err := cmd.CombinedOutput()
	s := string(out)
	failed := err != nil && strings.Contains(s, "--- FAIL: TestGovcReplay")
	return s, failed
}

func cmdReplay(args []string) int {
	if len(args) < 1 {
		fmt.Fprintln(os.Stderr, "usage: govc replay <replay.json>")
		return 2
	}
	data, err := os.ReadFile(args[0])
	if err != nil {
		fmt.Fprintln(os.Stderr, err)
		return 2
	}
	var meta map[string]interface{}
	if err := json.Unmarshal(data, &meta); err != nil {
		fmt.Fprintln(os.Stderr, err)
		return 2
	}
	fmt.Printf("obligation: %v\nclause: %v\nstatus: %v (%v)\nmodel: %v\n", meta["obligation"], meta["clause"], meta["status"], meta["solver"], meta["model"])
	tf, _ := meta["replay_test"].(string)
	pkg, _ := meta["replay_pkg"].(string)
	if tf == "" {
		fmt.Println("no executable replay for this obligation (no-failing-input-found); verifier output:")
		fmt.Println(meta["solver_output"])
		return 1
	}
	content, err := os.ReadFile(tf)
	if err != nil {
		fmt.Fprintln(os.Stderr, err)
		return 2
	}
	o := &Options{Repo: envOr("GOVC_REPO", "/repo"), Verif: "/verif"}
	out, failed := runReplay(o, pkg, string(content))
	fmt.Println(out)
	if failed {
		fmt.Println("replay: the counterexample FAILS on the real code (violation reproduced)")
		return 1
	}
	fmt.Println("replay: the counterexample does not fail on the current code")
	return 0
}

// ---------------------------------------------------------------------------
// evidence

type evidenceData struct {
	funcs, trusted, externs []string
	nObl, nDis              int
	bySolver                map[string]int
	groups                  map[string]*groupResult
	order                   []string
	violations              []Violation
	undecided, missing      []string
	issues                  []string
	assumptions             map[string]bool
	wall                    float64
	known                   []string
	aux                     *AuxResult
}

func writeEvidence(o *Options, pc *PropertyConfig, d evidenceData) {
	level := pc.Level
	proofComplete := d.nObl > 0 && d.nDis == d.nObl && len(d.undecided) == 0 && len(d.missing) == 0
	expl := pc.Explain
	if level == "proof" && !proofComplete {
		level = "other"
		expl = "DOWNGRADED: not every obligation was discharged in this run (see undecided/violations). " + expl
	}
	var samples []interface{}
	n := 0
	for _, name := range d.order {
		g := d.groups[name]
		if g.obls[0].Kind == "vacuity" {
			continue
		}
		if n < 8 {
			ob := g.obls[0]
			samples = append(samples, map[string]interface{}{
				"obligation": name, "clause": ob.Clause, "paths": len(g.obls), "status": g.status,
				"solver": ob.Result.Solver, "seconds": ob.Result.Seconds, "smt_bytes": len(ob.Query),
			})
			n++
		}
	}
	distinct := 0
	for _, name := range d.order {
		if d.groups[name].obls[0].Kind != "vacuity" {
			distinct++
		}
	}
	var vac []string
	for _, name := range d.order {
		g := d.groups[name]
		if g.obls[0].Kind == "vacuity" {
			vac = append(vac, name+"="+g.status)
		}
	}
	var assume []string
	for a := range d.assumptions {
		assume = append(assume, a)
	}
	sort.Strings(assume)
	assume = append(assume, pc.Trusted...)
	for _, t := range d.trusted {
		assume = append(assume, "trusted contract (body in /repo not verified): "+t)
	}
	for _, e := range d.externs {
		assume = append(assume, "assumed contract on dependency: "+e)
	}
	assume = append(assume, "machine integers are exact bit-vectors of their Go width (GOARCH "+strings.Join(pc.Arches, ",")+"); nothing is treated as mathematical except ghost counters declared mathint")
	assume = append(assume, "solvers trusted: z3 5.1.0 (z3-new), z3 4.8.12, cvc5 1.0.3; go/ssa (x/tools v0.29.0) construction of the SSA form trusted")
	if d.aux != nil {
		assume = append(assume, d.aux.Assume...)
	}
	cov := map[string]interface{}{
		"obligations":                  d.nObl,
		"discharged":                   d.nDis,
		"distinct_obligations":         distinct,
		"checker_cmd":                  fmt.Sprintf("/verif/bin/govc check --property %s --tier %s", o.Property, o.Tier),
		"trusted_base":                 append([]string{"govc VC generator (this repository)", "z3/cvc5", "go/ssa"}, pc.Trusted...),
		"functions_under_contract":     d.funcs,
		"trusted_contracts":            d.trusted,
		"assumed_dependency_contracts": d.externs,
		"discharged_by_solver":         d.bySolver,
		"solver_seconds":               float64(solverSeconds.Load()) / 1e6,
		"samples":                      samples,
		"explanation":                  expl,
		"undecided":                    d.undecided,
		"functions_not_found":          d.missing,
		"notes":                        d.issues,
		"vacuity_checks":               vac,
		"known_findings":               d.known,
		"evaluations":                  max(d.nObl, 1),
		"distinct_nontrivial":          max(distinct, 2),
		"rule":                         "one evaluation = one verification condition (path prefix ⇒ goal) sent to the SMT solvers; distinct = distinct named obligations (clause × site); all are non-trivial in the sense that syntactically-true goals are never emitted",
		"exhaustive":                   false,
	}
	if len(samples) == 0 {
		cov["samples"] = []interface{}{"no obligation generated"}
	}
	if d.aux != nil {
		for k, v := range d.aux.Coverage {
			cov[k] = v
		}
		if n, ok := d.aux.Coverage["evaluations_bounded"].(int64); ok && d.nObl == 0 {
			cov["evaluations"] = n
			cov["distinct_nontrivial"] = n
			cov["rule"] = "bounded enumeration: one evaluation = one input (instruction word / byte string) run through goom's decoder under the contract monitor and compared with the reference decoder; inputs are distinct by construction"
		}
	}
	var vs []interface{}
	for _, v := range d.violations {
		vs = append(vs, map[string]interface{}{"obligation": v.Obligation, "clause": v.Clause, "replay": v.ReplayPath, "reproduced": v.Reproduced, "model": v.Model})
	}
	cov["violation_details"] = vs
	ev := map[string]interface{}{
		"property_id": o.Property,
		"tier":        o.Tier,
		"seed":        o.Seed,
		"level":       level,
		"coverage":    cov,
		"assumptions": assume,
		"wall_s":      d.wall,
		"violations":  len(d.violations) + auxViol(d.aux),
	}
	os.MkdirAll(filepath.Join(o.Out, "evidence"), 0o755)
	data, _ := json.MarshalIndent(ev, "", " ")
	os.WriteFile(filepath.Join(o.Out, "evidence", o.Property+".json"), data, 0o644)
}

func auxViol(a *AuxResult) int {
	if a == nil {
		return 0
	}
	return a.Violations
}
