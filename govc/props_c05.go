package main

func init() {
	registerProperty(&PropertyConfig{
		ID:      "C05",
		Explain: "BaseMatcher.Result proved against a sequential functional contract (k-th call returns results[min(k,n-1)], cursor advance exact) and a rely/guarantee contract under interference (element of the sequence, cursor monotone, last element sticks); frame = only this matcher's cursor",
		Trusted: []string{"sync/atomic Load/Add are atomic; rely: other goroutines only add 1 to the cursor (they run the same function)", "cursor and sequence length stay below 2^30 (no int32 wrap)", "schedules are not explored: the concurrent clauses are lemmas over the atomic operations' assumed contracts"},
	})
}
