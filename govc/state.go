package main

// state.go — symbolic state: SMT lines of one path, heap versions, loads/stores.

import (
	"fmt"
	"go/types"
	"strings"
)

type State struct {
	ex           *Exec
	lines        []string          // declarations / definitions / assumptions of this path, in order
	heap         map[string]string // heap array -> current SMT name
	entry        map[string]string // heap at function entry (for old())
	fresh        []string          // refs allocated on this path
	trace        []string          // block trace (for reports)
	fr           *Frame
	panicV       *Val // non-nil while a panic is propagating
	recovered    bool
	enter        bool // a closure frame was pushed: continue at its entry block
	havocEpoch   int
	panicSite    string
	pendingPanic *Val
	measures     map[string]string
	noLoadAssume bool
	callResult   bool                 // values being typed come from a call (may be freshly allocated by the callee)
	loopHeap     map[string]string    // heap versions when the innermost cut loop was entered
	loopFresh    []string             // objects allocated on this path before that loop was entered
	iters        map[string]*iterInfo // map iterators by SSA value name
	callRets     map[string]Val       // results of the last call to each contracted callee (copy on write)
	lastIter     string
	visited      map[int]int
	notes        []string
}

func (st *State) clone() *State {
	n := *st
	n.lines = append([]string(nil), st.lines...)
	n.heap = make(map[string]string, len(st.heap))
	for k, v := range st.heap {
		n.heap[k] = v
	}
	n.fresh = append([]string(nil), st.fresh...)
	n.trace = append([]string(nil), st.trace...)
	n.fr = st.fr.cloneChain()
	n.visited = make(map[int]int, len(st.visited))
	for k, v := range st.visited {
		n.visited[k] = v
	}
	n.notes = append([]string(nil), st.notes...)
	if st.iters != nil {
		n.iters = map[string]*iterInfo{}
		for k, v := range st.iters {
			n.iters[k] = v
		}
	}
	return &n
}

func (st *State) newName(prefix string) string {
	n := st.ex.counter.Add(1)
	return fmt.Sprintf("%s~%d", smtIdent(prefix), n)
}

func (st *State) define(prefix, sort, term string) string {
	// do not rename atoms
	if !strings.ContainsAny(term, " (") {
		return term
	}
	name := st.newName(prefix)
	st.lines = append(st.lines, fmt.Sprintf("(define-fun %s () %s %s)", name, sort, term))
	return name
}

func (st *State) freshConst(prefix, sort string) string {
	name := st.newName(prefix)
	st.lines = append(st.lines, fmt.Sprintf("(declare-const %s %s)", name, sort))
	return name
}

func (st *State) assume(term string) {
	if term == "true" {
		return
	}
	st.lines = append(st.lines, "(assert "+term+")")
}

func (st *State) hget(name string) string {
	if v, ok := st.heap[name]; ok {
		return v
	}
	return name
}

func (st *State) hset(name, term string) {
	sort := st.ex.ctx.heapSortOf(name)
	if sort == "" {
		panic(unsupported("heap array " + name + " not declared"))
	}
	st.heap[name] = st.define(name, sort, term)
}

func (st *State) hhavoc(name string) string {
	sort := st.ex.ctx.heapSortOf(name)
	st.heap[name] = st.freshConst(name, sort)
	return st.heap[name]
}

// freshRef allocates a new object.
func (st *State) freshRef(prefix string) string {
	r := st.freshConst(prefix, sortRef)
	var ds []string
	ds = append(ds, smtNot(sx("alive0", r)), smtNot(sx("=", r, "nil")), smtNot(sx("=", r, "textref")), smtNot(sx("=", r, "nilarr")))
	for _, o := range st.fresh {
		ds = append(ds, smtNot(sx("=", r, o)))
	}
	st.assume(smtAnd(ds...))
	st.fresh = append(st.fresh, r)
	return r
}

// iterInfo models a `range` over a map: the entries present when the range statement was reached are
// visited exactly once each, in an unspecified order (ghost visited set in heap variable Heap).
type iterInfo struct {
	Heap   string // ghost heap variable: (Array K Bool)
	Pres   string // snapshot: (Array K Bool)
	Vals   string // snapshot: (Array K V)
	KS, VS string
	KT, VT types.Type
}

type unsupportedErr struct{ msg string }

func (u unsupportedErr) Error() string      { return u.msg }
func unsupported(msg string) unsupportedErr { return unsupportedErr{msg} }

// ---------------------------------------------------------------------------
// pointers

func (st *State) ptrOf(v Val) *Ptr {
	if v.P != nil {
		return v.P
	}
	var elem types.Type
	if v.Ty != nil {
		if pt, ok := v.Ty.Underlying().(*types.Pointer); ok {
			elem = pt.Elem()
		}
	}
	if elem == nil {
		panic(unsupported(fmt.Sprintf("dereference of non-pointer value %s : %v", v.T, v.Ty)))
	}
	return &Ptr{Kind: pObj, Base: v.T, Elem: elem}
}

func (st *State) fieldPtr(base Val, idx int) *Ptr {
	c := st.ex.ctx
	p := st.ptrOf(base)
	if p.Kind != pObj && p.Kind != pGlobal {
		panic(unsupported("field address of a nested struct value"))
	}
	n, s := structOf(p.Elem)
	if s == nil {
		panic(unsupported(fmt.Sprintf("field address on non-struct %v", p.Elem)))
	}
	if !c.isDatatypeStruct(p.Elem) {
		panic(unsupported(fmt.Sprintf("field access on opaque struct %v", p.Elem)))
	}
	f := s.Field(idx)
	if p.Kind == pGlobal {
		panic(unsupported("field address of a global struct value " + p.Heap))
	}
	key := typeKey(n)
	h := c.heapDecl(fieldHeap(key, f.Name(), idx), arraySort(sortRef, c.sortFor(f.Type())))
	return &Ptr{Kind: pField, Base: p.Base, Heap: h, Elem: f.Type()}
}

func (st *State) load(p *Ptr) Val {
	c := st.ex.ctx
	switch p.Kind {
	case pGlobal:
		return Val{T: st.hget(p.Heap), S: c.sortFor(p.Elem), Ty: p.Elem}
	case pField:
		return Val{T: sx("select", st.hget(p.Heap), p.Base), S: c.sortFor(p.Elem), Ty: p.Elem}
	case pElem:
		return Val{T: sx("select", sx("select", st.hget(p.Heap), p.Base), p.Idx), S: c.sortFor(p.Elem), Ty: p.Elem}
	case pFieldElem:
		return Val{T: sx("select", sx("select", st.hget(p.Heap), p.Base), p.Idx), S: c.sortFor(p.Elem), Ty: p.Elem}
	case pObj, pRaw:
		if p.Kind == pRaw && p.Heap == "sliceheader" {
			get := func(f string, i int) string {
				h := c.heapDecl(fieldHeap("reflect.SliceHeader", f, i), arraySort(sortRef, bvSort(64)))
				return sx("select", st.hget(h), p.Base)
			}
			return Val{T: mkSlice("textref", get("Data", 0), get("Len", 1), get("Cap", 2)), S: sortSl, Ty: p.Elem}
		}
		if p.Kind == pRaw && p.Heap == "le32" {
			h := c.elemHeap(bvSort(8))
			arr := sx("select", st.hget(h), p.Base)
			b := func(k int64) string { return sx("select", arr, sx("bvadd", p.Idx, bv64(k))) }
			return Val{T: sx("concat", b(3), b(2), b(1), b(0)), S: bvSort(32), Ty: p.Elem}
		}
		if c.isDatatypeStruct(p.Elem) {
			n, s := structOf(p.Elem)
			key := typeKey(n)
			c.sortFor(p.Elem)
			var fs []string
			for i := 0; i < s.NumFields(); i++ {
				f := s.Field(i)
				h := c.heapDecl(fieldHeap(key, f.Name(), i), arraySort(sortRef, c.sortFor(f.Type())))
				fs = append(fs, sx("select", st.hget(h), p.Base))
			}
			return Val{T: sx("mk!"+key, fs...), S: c.sortFor(p.Elem), Ty: p.Elem}
		}
		if at, ok := p.Elem.Underlying().(*types.Array); ok {
			h := c.elemHeap(c.sortFor(at.Elem()))
			return Val{T: sx("select", st.hget(h), p.Base), S: c.sortFor(p.Elem), Ty: p.Elem}
		}
		s := c.sortFor(p.Elem)
		h := c.cellHeap(s)
		return Val{T: sx("select", st.hget(h), p.Base), S: s, Ty: p.Elem}
	}
	panic(unsupported("load through unknown pointer kind"))
}

func (st *State) store(p *Ptr, v Val) {
	c := st.ex.ctx
	switch p.Kind {
	case pGlobal:
		st.heap[p.Heap] = st.define(p.Heap, c.sortFor(p.Elem), v.T)
	case pField:
		st.hset(p.Heap, sx("store", st.hget(p.Heap), p.Base, v.T))
	case pElem, pFieldElem:
		h := st.hget(p.Heap)
		st.hset(p.Heap, sx("store", h, p.Base, sx("store", sx("select", h, p.Base), p.Idx, v.T)))
	case pObj, pRaw:
		if p.Kind == pRaw && p.Heap == "le32" {
			h := c.elemHeap(bvSort(8))
			arr := sx("select", st.hget(h), p.Base)
			for k := 0; k < 4; k++ {
				arr = sx("store", arr, sx("bvadd", p.Idx, bv64(int64(k))), sx(fmt.Sprintf("(_ extract %d %d)", 8*k+7, 8*k), v.T))
			}
			st.hset(h, sx("store", st.hget(h), p.Base, arr))
			return
		}
		if p.Kind == pRaw && p.Heap == "sliceheader" {
			panic(unsupported("store through a SliceHeader view"))
		}
		if c.isDatatypeStruct(p.Elem) {
			n, s := structOf(p.Elem)
			key := typeKey(n)
			c.sortFor(p.Elem)
			for i := 0; i < s.NumFields(); i++ {
				f := s.Field(i)
				h := c.heapDecl(fieldHeap(key, f.Name(), i), arraySort(sortRef, c.sortFor(f.Type())))
				st.hset(h, sx("store", st.hget(h), p.Base, sx(fieldAcc(key, f.Name(), i), v.T)))
			}
			return
		}
		if at, ok := p.Elem.Underlying().(*types.Array); ok {
			h := c.elemHeap(c.sortFor(at.Elem()))
			st.hset(h, sx("store", st.hget(h), p.Base, v.T))
			return
		}
		s := c.sortFor(p.Elem)
		h := c.cellHeap(s)
		st.hset(h, sx("store", st.hget(h), p.Base, v.T))
	default:
		panic(unsupported("store through unknown pointer kind"))
	}
}

// ---------------------------------------------------------------------------
// slices

func slArr(s string) string { return sx("s-arr", s) }
func slOff(s string) string { return sx("s-off", s) }
func slLen(s string) string { return sx("s-len", s) }
func slCap(s string) string { return sx("s-cap", s) }

func mkSlice(arr, off, ln, cp string) string { return sx("mk-slice", arr, off, ln, cp) }

// elemRef is the object identity of element idx of the backing array arr (slices of structs are
// modelled as arrays of objects whose fields live in the per-field heap arrays).
func (c *Ctx) elemRef(arr, idx string) string {
	c.declFun("eref", []string{sortRef, bvSort(64)}, sortRef)
	c.declFun("eref_arr", []string{sortRef}, sortRef)
	c.declFun("eref_idx", []string{sortRef}, bvSort(64))
	c.fact("eref", "(forall ((a Ref) (i (_ BitVec 64))) (! (and (= (eref_arr (eref a i)) a) (= (eref_idx (eref a i)) i) (not (= (eref a i) nil)) (= (alive0 (eref a i)) (alive0 a))) :pattern ((eref a i))))", "eref")
	return sx("eref", arr, idx)
}

func (st *State) sliceElemPtr(s Val, idx string) *Ptr {
	c := st.ex.ctx
	et := s.Ty.Underlying().(*types.Slice).Elem()
	if c.isDatatypeStruct(et) {
		return &Ptr{Kind: pObj, Base: c.elemRef(slArr(s.T), sx("bvadd", slOff(s.T), idx)), Elem: et}
	}
	h := c.elemHeap(c.sortFor(et))
	return &Ptr{Kind: pElem, Base: slArr(s.T), Heap: h, Idx: sx("bvadd", slOff(s.T), idx), Elem: et}
}

func bv64(i int64) string { return bvLitI(i, 64) }
