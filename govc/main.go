package main

// govc — contract-based deductive verification of Tencent/goom (see /verif/DESIGN.md).

import (
	"encoding/json"
	"flag"
	"fmt"
	"os"
	"path/filepath"
	"sort"
	"strings"
	"sync"
	"time"
)

type Options struct {
	Repo, Verif   string
	Out           string
	Property      string
	Tier          string
	Seed          int64
	Funcs         string // debug: only these functions (comma separated, short names)
	KeepSMT       string
	Verbose       bool
	NoReplay      bool
	AllProps      bool
	Dump          bool
	WriteBaseline bool
}

func main() {
	if len(os.Args) < 2 {
		fmt.Fprintln(os.Stderr, "usage: govc check|replay|list ...")
		os.Exit(2)
	}
	switch os.Args[1] {
	case "check":
		os.Exit(cmdCheck(os.Args[2:]))
	case "ssa":
		os.Exit(cmdSSA(os.Args[2:]))
	case "replay":
		os.Exit(cmdReplay(os.Args[2:]))
	default:
		fmt.Fprintln(os.Stderr, "unknown command", os.Args[1])
		os.Exit(2)
	}
}

func cmdCheck(args []string) int {
	fs := flag.NewFlagSet("check", flag.ExitOnError)
	var o Options
	fs.StringVar(&o.Repo, "repo", "/repo", "repository under verification")
	fs.StringVar(&o.Verif, "verif", "/verif", "verification directory")
	fs.StringVar(&o.Out, "out", "", "directory for evidence/ and replays/ (default: the verification directory)")
	fs.StringVar(&o.Property, "property", "", "property id")
	fs.StringVar(&o.Tier, "tier", envOr("VERIF_TIER", "quick"), "quick|thorough")
	fs.StringVar(&o.Funcs, "funcs", "", "debug: restrict to these functions")
	fs.StringVar(&o.KeepSMT, "keep-smt", "", "debug: keep SMT files in this directory")
	fs.BoolVar(&o.Verbose, "v", false, "verbose")
	fs.BoolVar(&o.NoReplay, "no-replay", false, "do not run replays")
	fs.BoolVar(&o.Dump, "dump", false, "debug: print every obligation with its status")
	fs.BoolVar(&deadcodeProbe, "deadcode", false, "debug: report call sites after which no explored path is feasible")
	fs.BoolVar(&o.WriteBaseline, "write-baseline", false, "record the obligations discharged by this run as the accepted baseline")
	fs.Parse(args)
	fmt.Sscanf(envOr("VERIF_SEED", "1"), "%d", &o.Seed)
	if o.Out == "" {
		o.Out = o.Verif
	}
	if o.Property == "" {
		fmt.Fprintln(os.Stderr, "--property required")
		return 2
	}
	pc := propertyConfigs[o.Property]
	if pc == nil {
		fmt.Fprintln(os.Stderr, "unknown property", o.Property)
		return 2
	}
	return runProperty(&o, pc)
}

func envOr(k, d string) string {
	if v := os.Getenv(k); v != "" {
		return v
	}
	return d
}

// ---------------------------------------------------------------------------

type archRun struct {
	arch string
	ex   *Exec
	obls []*Obligation
}

type KnownFinding struct {
	Property   string `json:"property"`
	Obligation string `json:"obligation"`
	Excuse     string `json:"excuse"`
	What       string `json:"what"`
	Status     string `json:"status"` // "open" or "fixed"
	Commit     string `json:"commit,omitempty"`
}

func loadKnown(verif string) []KnownFinding {
	var kf struct {
		Findings []KnownFinding `json:"findings"`
	}
	data, err := os.ReadFile(filepath.Join(verif, "known_findings.json"))
	if err != nil {
		return nil
	}
	if err := json.Unmarshal(data, &kf); err != nil {
		fmt.Fprintln(os.Stderr, "known_findings.json:", err)
		return nil
	}
	return kf.Findings
}

type Baseline struct {
	Obligations map[string]string `json:"obligations"` // name -> "discharged"
}

func loadBaseline(verif, prop string) *Baseline {
	b := &Baseline{Obligations: map[string]string{}}
	data, err := os.ReadFile(filepath.Join(verif, "baseline", prop+".json"))
	if err == nil {
		json.Unmarshal(data, b)
	}
	return b
}

func hasProp(ps []string, p string) bool {
	for _, x := range ps {
		if x == p {
			return true
		}
	}
	return false
}

func contractServes(c *Contract, p string) bool {
	if hasProp(c.Props, p) {
		return true
	}
	for _, cl := range c.Clauses {
		if hasProp(cl.Props, p) {
			return true
		}
	}
	return false
}

type groupResult struct {
	name    string
	obls    []*Obligation
	status  string // discharged, refuted, undecided, vacuous, ok(vacuity)
	witness *Obligation
}

func runProperty(o *Options, pc *PropertyConfig) int {
	t0 := time.Now()
	scratch, err := os.MkdirTemp("", "govc-"+o.Property+"-")
	if err != nil {
		fmt.Fprintln(os.Stderr, err)
		return 2
	}
	defer os.RemoveAll(scratch)
	smtDir := scratch
	if o.KeepSMT != "" {
		smtDir = o.KeepSMT
		os.MkdirAll(smtDir, 0o755)
	}
	timeoutMs := 15000
	if o.Tier == "thorough" {
		timeoutMs = 120000
	}
	var runs []*archRun
	var issues []string
	assumptions := map[string]bool{}
	var funcsUnder, trusted, externs []string
	missing := []string{}
	for _, arch := range pc.Arches {
		ex, err := loadProgram(o.Repo, arch)
		if err != nil {
			fmt.Fprintf(os.Stderr, "load (%s): %v\n", arch, err)
			return 2
		}
		if err := ex.loadSpecs(filepath.Join(o.Verif, "spec")); err != nil {
			fmt.Fprintf(os.Stderr, "contracts: %v\n", err)
			return 2
		}
		ar := &archRun{arch: arch, ex: ex}
		runs = append(runs, ar)
		keys := sortedKeys(ex.db.Contracts)
		for _, k := range keys {
			c := ex.db.Contracts[k]
			if c.Extern || !contractServes(c, o.Property) {
				continue
			}
			short := shortFuncName(k)
			if o.Funcs != "" && !strings.Contains(","+o.Funcs+",", ","+short+",") {
				continue
			}
			fn := ex.funcs[k]
			if fn == nil {
				// the function may exist only for another GOARCH
				if pc.archOf(short) != "" && pc.archOf(short) != arch {
					continue
				}
				if archSpecific(c.File, arch) {
					continue
				}
				missing = append(missing, short+" ("+arch+")")
				continue
			}
			if pc.archOf(short) != "" && pc.archOf(short) != arch {
				continue
			}
			if len(pc.Arches) > 1 && arch != pc.Arches[0] && !isArchFile(ex, fn, arch) {
				continue // arch-independent functions are verified once
			}
			if c.Trusted {
				trusted = append(trusted, short)
				continue
			}
			funcsUnder = append(funcsUnder, short+archSuffix(pc, arch))
			ex.verifyFunc(fn, c)
		}
		for _, ob := range ex.obls {
			if hasProp(ob.Props, "slow") && o.Tier != "thorough" {
				// clauses tagged slow are discharged in the thorough tier only; the quick tier uses them
				// (callee postconditions, loop invariants) without checking them, which is reported
				if hasProp(ob.Props, o.Property) {
					assumptions["clause checked by the thorough tier only, assumed by this run: "+strings.SplitN(ob.Name, "@", 2)[0]] = true
				}
				continue
			}
			if hasProp(ob.Props, o.Property) || ob.Kind == "vacuity" {
				ob.Name = ob.Name + archSuffix(pc, arch)
				ar.obls = append(ar.obls, ob)
			}
		}
		issues = append(issues, ex.issues...)
		for a := range ex.assume {
			assumptions[a] = true
		}
		for _, k := range keys {
			c := ex.db.Contracts[k]
			if c.Extern && c.Used {
				externs = append(externs, shortFuncName(k))
			}
		}
	}
	// build queries and solve in parallel
	type job struct {
		ar *archRun
		ob *Obligation
	}
	var jobs []job
	for _, ar := range runs {
		snap := ar.ex.ctx.snapshot()
		for _, ob := range ar.obls {
			ob.Query = snap.query(strings.Join(ob.lines, "\n") + "\n(assert (not " + ob.goal + "))\n")
			jobs = append(jobs, job{ar, ob})
		}
	}
	var wg sync.WaitGroup
	sem := make(chan struct{}, 16)
	for i, j := range jobs {
		wg.Add(1)
		sem <- struct{}{}
		go func(i int, j job) {
			defer wg.Done()
			defer func() { <-sem }()
			var vals []string
			for _, k := range sortedKeys(j.ob.Inputs) {
				vals = append(vals, inputTerms(j.ob.Inputs[k], j.ob)...)
			}
			vals = append(vals, j.ob.Values...)
			name := fmt.Sprintf("%04d_%s", i, j.ob.Name)
			if len(name) > 150 {
				name = name[:150]
			}
			cross := o.Tier == "thorough"
			to := timeoutMs
			if j.ob.Kind == "vacuity" {
				to = 4000
				cross = false
			}
			j.ob.Result = solve(smtDir, name, j.ob.Query, vals, to, cross)
		}(i, j)
	}
	wg.Wait()
	// second chance for undecided queries (timeouts under machine load must not become alarms):
	// re-run them a few at a time with a four-fold time limit
	{
		var again []job
		openFinding := map[string]bool{}
		for _, kf := range loadKnown(o.Verif) {
			if kf.Property == o.Property && kf.Status != "fixed" {
				openFinding[kf.Obligation] = true
			}
		}
		for _, j := range jobs {
			if j.ob.Kind != "vacuity" && j.ob.Result.Status != "unsat" && j.ob.Result.Status != "sat" {
				if openFinding[j.ob.Name] {
					continue // an open known finding: decided by the re-check under its excuse, not by more solver time
				}
				again = append(again, j)
			}
		}
		sem2 := make(chan struct{}, 4)
		var wg2 sync.WaitGroup
		for i, j := range again {
			wg2.Add(1)
			sem2 <- struct{}{}
			go func(i int, j job) {
				defer wg2.Done()
				defer func() { <-sem2 }()
				// first the relevancy slice of the same obligation (drops assumptions that share no symbol
				// with the goal, e.g. boxing axioms of logging arguments): "unsat" on the slice proves the
				// obligation; "sat" on the slice is a counterexample candidate (the dropped assumptions
				// constrain other symbols only) and is reported as a refutation obtained from the slice
				if j.ob.goal != "false" {
					snap := j.ar.ex.ctx.snapshot()
					sl := snap.sliceLines(j.ob.lines, j.ob.goal)
					var vals []string
					for _, k := range sortedKeys(j.ob.Inputs) {
						vals = append(vals, j.ob.Inputs[k])
					}
					q := snap.query(strings.Join(sl, "\n") + "\n(assert (not " + j.ob.goal + "))\n")
					rs := solve(smtDir, fmt.Sprintf("slice_%04d", i), q, vals, timeoutMs, false)
					if rs.Status == "unsat" || rs.Status == "sat" {
						rs.Solver += "(relevancy-slice)"
						j.ob.Result = rs
						return
					}
				}
				r := solve(smtDir, fmt.Sprintf("retry_%04d", i), j.ob.Query, nil, timeoutMs*4, false)
				if r.Status == "unsat" || r.Status == "sat" {
					j.ob.Result = r
				}
			}(i, j)
		}
		wg2.Wait()
		// third chance, one at a time with a sixteen-fold limit, for queries whose obligation was discharged on
		// the accepted baseline: a lost proof is reported as a violation, so a timeout on a loaded machine
		// must be ruled out first
		base3 := loadBaseline(o.Verif, o.Property)
		var last []int
		for i, j := range again {
			st := j.ob.Result.Status
			if st == "unsat" || st == "sat" {
				continue
			}
			if base3.Obligations[j.ob.Name] == "discharged" {
				last = append(last, i)
			}
		}
		// only a handful of stragglers can be a load artefact; many undecided baseline obligations mean the
		// code changed, and re-running them all serially would make a failing check take hours
		if len(last) > 4 {
			last = nil
		}
		for _, i := range last {
			j := again[i]
			r := solve(smtDir, fmt.Sprintf("last_%04d", i), j.ob.Query, nil, timeoutMs*16, false)
			if r.Status == "unsat" || r.Status == "sat" {
				r.Solver += "(third-chance)"
				j.ob.Result = r
			}
		}
	}

	// aggregate by obligation name
	groups := map[string]*groupResult{}
	var order []string
	for _, j := range jobs {
		g := groups[j.ob.Name]
		if g == nil {
			g = &groupResult{name: j.ob.Name}
			groups[j.ob.Name] = g
			order = append(order, j.ob.Name)
		}
		g.obls = append(g.obls, j.ob)
	}
	sort.Strings(order)
	known := loadKnown(o.Verif)
	baseline := loadBaseline(o.Verif, o.Property)
	nObl, nDis := 0, 0
	bySolver := map[string]int{}
	var violations []Violation
	var undecided []string
	var knownLines []string
	exitCode := 0
	for _, name := range order {
		g := groups[name]
		first := g.obls[0]
		if first.Kind == "vacuity" {
			anySat := false
			for _, ob := range g.obls {
				if ob.Result.Status == "sat" {
					anySat = true
				}
			}
			allUnsat := true
			for _, ob := range g.obls {
				if ob.Result.Status != "unsat" {
					allUnsat = false
				}
			}
			if first.Probe {
				if allUnsat {
					fmt.Printf("DEADCODE %s: no explored path continues after this call (contradictory contracts, or genuinely unreachable)\n", name)
				}
				g.status = "ok"
				continue
			}
			if first.Canary {
				if allUnsat {
					g.status = "vacuous"
					issues = append(issues, fmt.Sprintf("ENGINE/CONTRACT VACUITY: %s: no return path is feasible (contradictory requires/axioms?)", first.Func))
				} else {
					g.status = "ok"
				}
			} else {
				if anySat {
					g.status = "ok"
				} else if allUnsat {
					g.status = "vacuous"
					issues = append(issues, fmt.Sprintf("ENGINE/CONTRACT VACUITY: %s: requires ∧ axioms unsatisfiable", first.Func))
				} else {
					g.status = "ok?"
				}
			}
			continue
		}
		nObl += len(g.obls)
		g.status = "discharged"
		for _, ob := range g.obls {
			switch ob.Result.Status {
			case "unsat":
				nDis++
				bySolver[ob.Result.Solver]++
			case "sat":
				if g.status != "refuted" {
					g.status = "refuted"
					g.witness = ob
				}
			default:
				if g.status == "discharged" {
					g.status = "undecided"
					g.witness = ob
				}
			}
		}
	}
	vacuous := false
	for _, name := range order {
		if groups[name].status == "vacuous" {
			vacuous = true
		}
	}
	for _, name := range order {
		g := groups[name]
		if o.Dump {
			for _, ob := range g.obls {
				fmt.Printf("  %-10s %-8s %5.2fs %s  [%s]\n", ob.Result.Status, ob.Result.Solver, ob.Result.Seconds, ob.Name, ob.Trace)
			}
		}
		if g.obls[0].Kind == "vacuity" {
			continue
		}
		switch g.status {
		case "refuted", "undecided":
			ar := archRunOf(runs, g.witness)
			// known finding?
			handled := false
			for _, kf := range known {
				if kf.Property != o.Property || kf.Obligation != name || kf.Status == "fixed" {
					continue
				}
				ok, why := recheckUnderExcuse(ar, g, kf, smtDir, timeoutMs)
				if ok {
					line := fmt.Sprintf("KNOWN-FINDING: property=%s %s [%s]", o.Property, kf.What, name)
					knownLines = append(knownLines, line)
					fmt.Println(line)
					handled = true
					nDis += countNot(g, "unsat") // discharged under the recorded excuse
					break
				} else if o.Verbose {
					fmt.Printf("  known finding %s does not cover the failure: %s\n", kf.Obligation, why)
				}
			}
			if handled {
				continue
			}
			// an obligation with an open known finding is, on the unchanged tree, discharged outside the excused
			// class: a failure the excuse does not cover is a different violation of the same clause
			outsideExcuse := false
			for _, kf := range known {
				if kf.Property == o.Property && kf.Obligation == name && kf.Status != "fixed" {
					outsideExcuse = true
				}
			}
			inBase := baseline.Obligations[name] == "discharged" || outsideExcuse
			if g.status == "undecided" && !inBase {
				undecided = append(undecided, fmt.Sprintf("%s (%s by %s)", name, g.witness.Result.Status, g.witness.Result.Solver))
				continue
			}
			v := makeViolation(o, pc, ar, g)
			violations = append(violations, v)
			exitCode = 1
		}
	}
	if vacuous {
		exitCode = 1
		fmt.Printf("ENGINE-UNSOUND-OR-VACUOUS property=%s (see issues)\n", o.Property)
	}
	for _, v := range violations {
		line := fmt.Sprintf("VIOLATION property=%s replay=%s obligation=%s", o.Property, v.ReplayPath, v.Obligation)
		if !v.Reproduced {
			line += " no-failing-input-found"
		}
		fmt.Println(line)
	}
	for _, u := range undecided {
		fmt.Printf("UNDECIDED obligation=%s\n", u)
	}
	for _, m := range missing {
		fmt.Printf("UNDECIDED function under contract not found: %s\n", m)
	}
	for _, is := range issues {
		if strings.Contains(is, "UNDECIDED(") {
			undecided = append(undecided, is)
			// a function whose obligations were discharged on the accepted baseline can no longer be
			// verified at all (its contract does not evaluate / a construct became unsupported):
			// the proof that was there is gone, which is reported, not passed over
			fn := strings.SplitN(is, ": UNDECIDED(", 2)[0]
			had := false
			for name := range baseline.Obligations {
				if strings.HasPrefix(name, fn+"#") {
					had = true
					break
				}
			}
			if had && o.Funcs == "" {
				dir := filepath.Join(o.Out, "replays", o.Property)
				os.MkdirAll(dir, 0o755)
				path := filepath.Join(dir, smtIdent(fn)+"_undecidable.json")
				meta := map[string]interface{}{"property": o.Property, "obligation": fn + "#all", "status": "function no longer verifiable", "verifier_output": is, "reproduced": false}
				reproduced := false
				if pc.Replay != nil && !o.NoReplay {
					// a representative input of the failing class, where the property has one for this function
					if pkgDir, content, ok := pc.Replay(o, &groupResult{name: fn + "#all"}, map[string]string{}); ok {
						out, failed := runReplay(o, pkgDir, content)
						meta["replay_pkg"] = pkgDir
						meta["replay_output"] = truncate(out, 4000)
						meta["replay_failed_on_real_code"] = failed
						meta["reproduced"] = failed
						reproduced = failed
						goFile := strings.TrimSuffix(path, ".json") + "_test.go.txt"
						os.WriteFile(goFile, []byte(content), 0o644)
						meta["replay_test"] = goFile
					}
				}
				data, _ := json.MarshalIndent(meta, "", " ")
				os.WriteFile(path, data, 0o644)
				violations = append(violations, Violation{Obligation: fn + "#all(no longer verifiable)", Clause: is, Status: "undecidable", ReplayPath: path, Reproduced: reproduced})
				suffix := " no-failing-input-found"
				if reproduced {
					suffix = ""
				}
				fmt.Printf("VIOLATION property=%s replay=%s obligation=%s%s\n", o.Property, path, fn+"#all(no-longer-verifiable)", suffix)
				exitCode = 1
			}
		}
	}
	sort.Strings(issues)
	for _, is := range dedup(issues) {
		fmt.Printf("NOTE %s\n", is)
	}
	// bounded / auxiliary parts of the property (labelled, never counted as proved)
	var aux *AuxResult
	if pc.Aux != nil {
		aux = pc.Aux(o, scratch)
		for _, l := range aux.Lines {
			fmt.Println(l)
		}
		if aux.Violations > 0 {
			exitCode = 1
		}
	}
	// obligations of the accepted baseline that no longer exist
	var dropped []string
	for name := range baseline.Obligations {
		if _, ok := groups[name]; !ok && o.Funcs == "" {
			dropped = append(dropped, name)
		}
	}
	sort.Strings(dropped)
	// a clause-named obligation (ensures / step / invariant) of the accepted baseline that is no longer
	// even generated: the clause stopped being checked (e.g. a local it names vanished), which is a lost proof
	for _, name := range dropped {
		if !(strings.Contains(name, "#ensures:") || strings.Contains(name, "#step:") || strings.Contains(name, "#enter:") || strings.Contains(name, "#invariant:")) {
			continue
		}
		fnName := strings.SplitN(name, "#", 2)[0]
		reported := false
		for _, v := range violations {
			if strings.HasPrefix(v.Obligation, fnName+"#") {
				reported = true
			}
		}
		if reported {
			continue
		}
		dir := filepath.Join(o.Out, "replays", o.Property)
		os.MkdirAll(dir, 0o755)
		path := filepath.Join(dir, smtIdent(name)+"_not_generated.json")
		data, _ := json.MarshalIndent(map[string]interface{}{"property": o.Property, "obligation": name, "status": "obligation discharged on the accepted baseline is no longer generated from the current source", "reproduced": false}, "", " ")
		os.WriteFile(path, data, 0o644)
		violations = append(violations, Violation{Obligation: name + "(no longer generated)", Status: "undecidable", ReplayPath: path})
		fmt.Printf("VIOLATION property=%s replay=%s obligation=%s(no-longer-generated) no-failing-input-found\n", o.Property, path, name)
		exitCode = 1
	}
	if len(dropped) > 0 {
		issues = append(issues, fmt.Sprintf("obligation count dropped: %d baseline obligations were not generated in this run (first: %s)", len(dropped), dropped[0]))
		fmt.Printf("NOTE %s\n", issues[len(issues)-1])
	}
	if o.WriteBaseline {
		nb := &Baseline{Obligations: map[string]string{}}
		for _, name := range order {
			g := groups[name]
			if g.obls[0].Kind != "vacuity" && g.status == "discharged" {
				nb.Obligations[name] = "discharged"
			}
		}
		os.MkdirAll(filepath.Join(o.Verif, "baseline"), 0o755)
		data, _ := json.MarshalIndent(nb, "", " ")
		os.WriteFile(filepath.Join(o.Verif, "baseline", o.Property+".json"), data, 0o644)
		fmt.Printf("baseline written: %d obligations\n", len(nb.Obligations))
	}
	wall := time.Since(t0).Seconds()
	writeEvidence(o, pc, evidenceData{
		funcs: funcsUnder, trusted: trusted, externs: dedup(externs), nObl: nObl, nDis: nDis, bySolver: bySolver,
		groups: groups, order: order, violations: violations, undecided: undecided, missing: missing,
		issues: dedup(issues), assumptions: assumptions, wall: wall, known: knownLines, aux: aux,
	})
	if o.Verbose || exitCode != 0 || len(undecided) > 0 {
		fmt.Printf("property %s: %d functions, %d obligations, %d discharged, %d violations, %d undecided, %.1fs (solver %.1fs)\n",
			o.Property, len(funcsUnder), nObl, nDis, len(violations), len(undecided)+len(missing), wall, float64(solverSeconds.Load())/1e6)
	} else {
		fmt.Printf("OK property=%s functions=%d obligations=%d discharged=%d wall=%.1fs\n", o.Property, len(funcsUnder), nObl, nDis, wall)
	}
	return exitCode
}

func countNot(g *groupResult, st string) int {
	n := 0
	for _, ob := range g.obls {
		if ob.Result.Status != st {
			n++
		}
	}
	return n
}

func archRunOf(runs []*archRun, ob *Obligation) *archRun {
	for _, ar := range runs {
		for _, x := range ar.obls {
			if x == ob {
				return ar
			}
		}
	}
	return runs[0]
}

func dedup(xs []string) []string {
	seen := map[string]bool{}
	var out []string
	for _, x := range xs {
		if !seen[x] {
			seen[x] = true
			out = append(out, x)
		}
	}
	return out
}

func archSuffix(pc *PropertyConfig, arch string) string {
	if len(pc.Arches) > 1 && arch != pc.Arches[0] {
		return "[" + arch + "]"
	}
	return ""
}

func archSpecific(file, arch string) bool { return false }

// inputTerms lists the terms to ask the model for, for one input.
func inputTerms(term string, ob *Obligation) []string {
	return []string{term}
}

// recheckUnderExcuse re-checks every failing query of an obligation under
// the extra hypothesis !excuse.  The finding covers the failure only if all
// of them discharge.
func recheckUnderExcuse(ar *archRun, g *groupResult, kf KnownFinding, dir string, timeoutMs int) (bool, string) {
	if strings.TrimSpace(kf.Excuse) == "" {
		return false, "no excuse predicate"
	}
	node, err := parseSpecExpr(kf.Excuse)
	if err != nil {
		return false, "excuse does not parse: " + err.Error()
	}
	for i, ob := range g.obls {
		if ob.Result.Status == "unsat" {
			continue
		}
		term, extra, err := evalExcuse(ar.ex, ob, node)
		if err != nil {
			return false, err.Error()
		}
		q := ar.ex.ctx.snapshot().query(strings.Join(ob.lines, "\n") + "\n" + strings.Join(extra, "\n") + "\n(assert (not " + term + "))\n(assert (not " + ob.goal + "))\n")
		r := solve(dir, fmt.Sprintf("excuse_%d_%s", i, ob.Name), q, nil, timeoutMs, false)
		if r.Status != "unsat" {
			return false, fmt.Sprintf("still %s outside the excused class", r.Status)
		}
	}
	return true, ""
}

func evalExcuse(ex *Exec, ob *Obligation, node *Node) (t string, extra []string, err error) {
	defer func() {
		if r := recover(); r != nil {
			err = fmt.Errorf("excuse: %v", r)
		}
	}()
	st := &State{ex: ex, heap: map[string]string{}, entry: map[string]string{}}
	env := &SpecEnv{st: st, vars: map[string]Val{}}
	fn := ex.funcs[ob.funcKey]
	if fn != nil && fn.Pkg != nil {
		env.pkg = fn.Pkg.Pkg
	}
	for name, term := range ob.Inputs {
		if tv, ok := ob.inputVals[name]; ok {
			env.vars[name] = tv
		} else {
			_ = term
		}
	}
	for k, v := range ob.extraVars {
		if _, isInput := env.vars[k]; !isInput {
			env.vars[k] = v
		}
	}
	t = env.evalBool(node)
	return t, st.lines, nil
}
