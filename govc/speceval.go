package main

// speceval.go — evaluation of contract expressions to SMT terms.

import (
	"fmt"
	"go/constant"
	"go/types"
	"math/big"
	"strings"
)

type SpecEnv struct {
	st        *State
	heap      map[string]string // nil = st.heap
	old       map[string]string // heap for old(); nil = entry heap of st
	vars      map[string]Val
	addr      map[string]Val // variables known by address (captured / address-taken locals)
	pkg       *types.Package
	depth     int
	head      map[string]Val // values of the loop-carried variables at the loop head (step clauses)
	locals    map[string]Val // named locals at a return (ensures_local clauses)
	callFresh *[]string      // non-nil while a callee's ensures are assumed at a call site: objects it declares fresh
}

type specErr struct{ msg string }

func (e specErr) Error() string { return e.msg }

func specFail(f string, a ...interface{}) { panic(specErr{fmt.Sprintf(f, a...)}) }

func (ev *SpecEnv) ctx() *Ctx { return ev.st.ex.ctx }

func (ev *SpecEnv) hget(name string) string {
	if ev.heap != nil {
		if v, ok := ev.heap[name]; ok {
			return v
		}
		return name
	}
	return ev.st.hget(name)
}

func (ev *SpecEnv) withHeap(h map[string]string) *SpecEnv {
	n := *ev
	n.heap = h
	return &n
}

func (ev *SpecEnv) bind(name string, v Val) *SpecEnv {
	n := *ev
	n.vars = make(map[string]Val, len(ev.vars)+1)
	for k, x := range ev.vars {
		n.vars[k] = x
	}
	n.vars[name] = v
	return &n
}

// resolveType resolves a type expression written in a contract.
func (ex *Exec) resolveType(text string, pkg *types.Package) types.Type {
	text = strings.TrimSpace(text)
	switch {
	case strings.HasPrefix(text, "*"):
		return types.NewPointer(ex.resolveType(text[1:], pkg))
	case strings.HasPrefix(text, "[]"):
		return types.NewSlice(ex.resolveType(text[2:], pkg))
	case strings.HasPrefix(text, "map["):
		depth := 0
		for i, c := range text {
			if c == '[' {
				depth++
			} else if c == ']' {
				depth--
				if depth == 0 {
					return types.NewMap(ex.resolveType(text[4:i], pkg), ex.resolveType(text[i+1:], pkg))
				}
			}
		}
	case strings.HasPrefix(text, "["):
		end := strings.Index(text, "]")
		var n int64
		fmt.Sscanf(text[1:end], "%d", &n)
		return types.NewArray(ex.resolveType(text[end+1:], pkg), n)
	}
	if text == "interface{}" || text == "any" {
		return types.NewInterfaceType(nil, nil)
	}
	if text == "error" {
		return types.Universe.Lookup("error").Type()
	}
	if text == "Ref" {
		return types.Typ[types.UnsafePointer]
	}
	if text == "Type" {
		if p := ex.pkgByName("reflect"); p != nil {
			return p.Scope().Lookup("Type").Type()
		}
	}
	if obj := types.Universe.Lookup(text); obj != nil {
		if tn, ok := obj.(*types.TypeName); ok {
			return tn.Type()
		}
	}
	if i := strings.LastIndex(text, "."); i >= 0 {
		p := ex.pkgByName(text[:i])
		if p == nil {
			specFail("unknown package %q in type %q", text[:i], text)
		}
		obj := p.Scope().Lookup(text[i+1:])
		if tn, ok := obj.(*types.TypeName); ok {
			return tn.Type()
		}
		specFail("unknown type %q", text)
	}
	if pkg != nil {
		if obj := pkg.Scope().Lookup(text); obj != nil {
			if tn, ok := obj.(*types.TypeName); ok {
				return tn.Type()
			}
		}
	}
	specFail("unknown type %q", text)
	return nil
}

func (ex *Exec) isTypeName(text string, pkg *types.Package) bool {
	defer func() { recover() }()
	ok := false
	func() {
		defer func() {
			if r := recover(); r != nil {
				ok = false
			}
		}()
		ex.resolveType(text, pkg)
		ok = true
	}()
	return ok
}

func kval(k *big.Int) Val { return Val{K: new(big.Int).Set(k)} }

// coerce converts an untyped constant (or nil) to the sort of a typed peer.
func (ev *SpecEnv) coerce(v Val, sort string, ty types.Type) Val {
	if v.K != nil {
		if n, ok := isBV(sort); ok {
			return Val{T: bvLit(v.K, n), S: sort, Ty: ty}
		}
		if sort == sortInt {
			if v.K.Sign() < 0 {
				return Val{T: sx("-", new(big.Int).Neg(v.K).String()), S: sort, Ty: ty}
			}
			return Val{T: v.K.String(), S: sort, Ty: ty}
		}
		specFail("cannot use integer constant %v as %s", v.K, sort)
	}
	if v.T == "nil" && v.S == "nil" {
		switch sort {
		case sortRef:
			return Val{T: "nil", S: sortRef, Ty: ty}
		case sortIfc:
			return Val{T: "iface_nil", S: sortIfc, Ty: ty}
		case sortFunc:
			return Val{T: "func_nil", S: sortFunc, Ty: ty}
		case sortSl:
			return v // slice == nil is handled by the comparison itself
		}
		specFail("cannot use nil as %s", sort)
	}
	return v
}

func (ev *SpecEnv) unify(a, b Val) (Val, Val) {
	if a.K != nil && b.K != nil {
		return a, b
	}
	if a.K != nil || (a.S == "nil" && b.S != "nil") {
		return ev.coerce(a, b.S, b.Ty), b
	}
	if b.K != nil || (b.S == "nil" && a.S != "nil") {
		return a, ev.coerce(b, a.S, a.Ty)
	}
	return a, b
}

func (ev *SpecEnv) boolOf(v Val) string {
	if v.S != sortBool {
		specFail("boolean expected, got %s : %s", v.T, v.S)
	}
	return v.T
}

func (ev *SpecEnv) evalBool(n *Node) string { return ev.boolOf(ev.eval(n)) }

func (ev *SpecEnv) eval(n *Node) Val {
	c := ev.ctx()
	switch n.Kind {
	case "lit":
		k := new(big.Int)
		if _, ok := k.SetString(n.Name, 0); !ok {
			specFail("bad integer literal %q", n.Name)
		}
		return Val{K: k}
	case "str":
		return Val{T: c.strLit(n.Name), S: sortStr, Ty: types.Typ[types.String]}
	case "ident":
		return ev.ident(n.Name)
	case "un":
		a := ev.eval(n.Args[0])
		switch n.Op {
		case "!":
			return Val{T: smtNot(ev.boolOf(a)), S: sortBool, Ty: types.Typ[types.Bool]}
		case "-":
			if a.K != nil {
				return kval(new(big.Int).Neg(a.K))
			}
			if a.S == sortInt {
				return Val{T: sx("-", a.T), S: a.S, Ty: a.Ty}
			}
			return Val{T: sx("bvneg", a.T), S: a.S, Ty: a.Ty}
		case "^":
			if a.K != nil {
				return kval(new(big.Int).Not(a.K))
			}
			return Val{T: sx("bvnot", a.T), S: a.S, Ty: a.Ty}
		case "*":
			p := ev.st.ptrOf(a)
			return ev.loadPtr(p)
		case "&":
			return a
		}
	case "bin":
		return ev.binop(n)
	case "old":
		return ev.withHeap(ev.oldHeap()).eval(n.Args[0])
	case "call":
		return ev.call(n)
	case "sel":
		// package-qualified identifier?
		if n.Args[0].Kind == "ident" {
			if _, isVar := ev.vars[n.Args[0].Name]; !isVar {
				if p := ev.st.ex.pkgByName(n.Args[0].Name); p != nil {
					if obj := p.Scope().Lookup(n.Name); obj != nil {
						return ev.object(obj)
					}
					specFail("unknown identifier %s.%s", n.Args[0].Name, n.Name)
				}
			}
		}
		x := ev.eval(n.Args[0])
		return ev.field(x, n.Name)
	case "index":
		x := ev.eval(n.Args[0])
		i := ev.eval(n.Args[1])
		return ev.index(x, i)
	case "slice":
		x := ev.eval(n.Args[0])
		if x.S != sortSl {
			specFail("slice expression on non-slice %s", x.S)
		}
		lo := bv64(0)
		if n.Args[1] != nil {
			lo = ev.coerce(ev.eval(n.Args[1]), bvSort(64), types.Typ[types.Int]).T
		}
		hi := slLen(x.T)
		if n.Args[2] != nil {
			hi = ev.coerce(ev.eval(n.Args[2]), bvSort(64), types.Typ[types.Int]).T
		}
		return Val{T: mkSlice(slArr(x.T), sx("bvadd", slOff(x.T), lo), sx("bvsub", hi, lo), sx("bvsub", slCap(x.T), lo)), S: sortSl, Ty: x.Ty}
	case "quant":
		nev := ev
		var bs []string
		for _, b := range n.Binds {
			var s string
			var ty types.Type
			if b.Type == "mathint" {
				s = sortInt
			} else {
				ty = ev.st.ex.resolveType(b.Type, ev.pkg)
				s = c.sortFor(ty)
			}
			name := fmt.Sprintf("q!%s!%d", b.Name, ev.st.ex.counter.Add(1))
			bs = append(bs, fmt.Sprintf("(%s %s)", name, s))
			nev = nev.bind(b.Name, Val{T: name, S: s, Ty: ty})
		}
		body := nev.evalBool(n.Args[0])
		return Val{T: fmt.Sprintf("(%s (%s) %s)", n.Op, strings.Join(bs, " "), body), S: sortBool, Ty: types.Typ[types.Bool]}
	}
	specFail("cannot evaluate %s", n.String())
	return Val{}
}

func (ev *SpecEnv) oldHeap() map[string]string {
	if ev.old != nil {
		return ev.old
	}
	return ev.st.entry
}

func (ev *SpecEnv) loadPtr(p *Ptr) Val {
	// load under the evaluation heap
	save := ev.st.heap
	if ev.heap != nil {
		ev.st.heap = ev.heap
	}
	defer func() { ev.st.heap = save }()
	return ev.st.load(p)
}

func (ev *SpecEnv) ident(name string) Val {
	c := ev.ctx()
	if v, ok := ev.vars[name]; ok {
		return v
	}
	if a, ok := ev.addr[name]; ok {
		return ev.loadPtr(ev.st.ptrOf(a))
	}
	switch name {
	case "true", "false":
		return Val{T: name, S: sortBool, Ty: types.Typ[types.Bool]}
	case "nil":
		return Val{T: "nil", S: "nil"}
	case "textmem":
		h := c.elemHeap(bvSort(8))
		return Val{T: sx("select", ev.hget(h), "textref"), S: arraySort(bvSort(64), bvSort(8))}
	case "textref":
		return Val{T: "textref", S: sortRef}
	}
	if g, ok := ev.st.ex.db.Ghosts[name]; ok {
		return ev.ghost(g)
	}
	if ev.pkg != nil {
		if obj := ev.pkg.Scope().Lookup(name); obj != nil {
			return ev.object(obj)
		}
	}
	if obj := types.Universe.Lookup(name); obj != nil {
		if cst, ok := obj.(*types.Const); ok {
			return ev.constVal(cst)
		}
	}
	specFail("unknown identifier %q (vars=%d addr=%v)", name, len(ev.vars), ev.addr)
	return Val{}
}

func (ev *SpecEnv) ghostSort(g *GhostVar) (string, types.Type) {
	c := ev.ctx()
	t := g.Type
	if strings.HasPrefix(t, "map[") {
		// ghost maps are total SMT arrays
		depth := 0
		for i, ch := range t {
			if ch == '[' {
				depth++
			} else if ch == ']' {
				depth--
				if depth == 0 {
					var pkg *types.Package
					if g.Pkg != "" {
						pkg = ev.st.ex.pkgByPath(g.Pkg)
					}
					k := c.sortFor(ev.st.ex.resolveType(t[4:i], pkg))
					vt := strings.TrimSpace(t[i+1:])
					var v string
					if vt == "mathint" {
						v = sortInt
					} else {
						v = c.sortFor(ev.st.ex.resolveType(vt, pkg))
					}
					return arraySort(k, v), nil
				}
			}
		}
	}
	if t == "mathint" {
		return sortInt, nil
	}
	var pkg *types.Package
	if g.Pkg != "" {
		pkg = ev.st.ex.pkgByPath(g.Pkg)
	}
	ty := ev.st.ex.resolveType(t, pkg)
	return c.sortFor(ty), ty
}

func (ev *SpecEnv) ghost(g *GhostVar) Val {
	s, ty := ev.ghostSort(g)
	h := ev.ctx().heapDecl("GH!"+g.Name, s)
	return Val{T: ev.hget(h), S: s, Ty: ty}
}

func (ev *SpecEnv) constVal(cst *types.Const) Val {
	c := ev.ctx()
	v := cst.Val()
	switch v.Kind() {
	case constant.Bool:
		if constant.BoolVal(v) {
			return Val{T: "true", S: sortBool, Ty: cst.Type()}
		}
		return Val{T: "false", S: sortBool, Ty: cst.Type()}
	case constant.String:
		return Val{T: c.strLit(constant.StringVal(v)), S: sortStr, Ty: cst.Type()}
	case constant.Int:
		k, _ := new(big.Int).SetString(v.ExactString(), 10)
		if b, ok := cst.Type().Underlying().(*types.Basic); ok && b.Info()&types.IsUntyped == 0 {
			s := c.sortFor(cst.Type())
			n, _ := isBV(s)
			return Val{T: bvLit(k, n), S: s, Ty: cst.Type()}
		}
		return Val{K: k}
	}
	specFail("unsupported constant %s", cst.Name())
	return Val{}
}

func globalHeapName(v *types.Var) string {
	return "G!" + smtIdent(v.Pkg().Path()+"."+v.Name())
}

func (ev *SpecEnv) object(obj types.Object) Val {
	c := ev.ctx()
	switch o := obj.(type) {
	case *types.Const:
		return ev.constVal(o)
	case *types.Var:
		s := c.sortFor(o.Type())
		h := c.heapDecl(globalHeapName(o), s)
		return Val{T: ev.hget(h), S: s, Ty: o.Type()}
	case *types.Func:
		name := "fn!" + smtIdent(o.FullName())
		c.declConst(name, sortFunc)
		return Val{T: name, S: sortFunc, Ty: o.Type()}
	}
	specFail("cannot use %v in a contract", obj)
	return Val{}
}

func (ev *SpecEnv) field(x Val, name string) Val {
	c := ev.ctx()
	if x.Ty == nil {
		specFail("field %s of untyped value %s", name, x.T)
	}
	t := x.Ty
	isPtr := false
	if pt, ok := t.Underlying().(*types.Pointer); ok {
		t = pt.Elem()
		isPtr = true
	}
	n, s := structOf(t)
	if s == nil {
		specFail("field %s of non-struct %v", name, x.Ty)
	}
	if !c.isDatatypeStruct(t) {
		specFail("field %s of opaque struct %v", name, t)
	}
	key := typeKey(n)
	for i := 0; i < s.NumFields(); i++ {
		f := s.Field(i)
		if f.Name() == name {
			fs := c.sortFor(f.Type())
			if isPtr {
				h := c.heapDecl(fieldHeap(key, f.Name(), i), arraySort(sortRef, fs))
				return Val{T: sx("select", ev.hget(h), x.T), S: fs, Ty: f.Type()}
			}
			c.sortFor(t)
			return Val{T: sx(fieldAcc(key, f.Name(), i), x.T), S: fs, Ty: f.Type()}
		}
	}
	// promoted through an embedded pointer field
	for i := 0; i < s.NumFields(); i++ {
		f := s.Field(i)
		if f.Embedded() {
			inner := ev.field(x, f.Name())
			if _, st := structOf(derefType(inner.Ty)); st != nil {
				for j := 0; j < st.NumFields(); j++ {
					if st.Field(j).Name() == name {
						return ev.field(inner, name)
					}
				}
			}
		}
	}
	specFail("no field %s in %v", name, t)
	return Val{}
}

func derefType(t types.Type) types.Type {
	if t == nil {
		return nil
	}
	if pt, ok := t.Underlying().(*types.Pointer); ok {
		return pt.Elem()
	}
	return t
}

func (ev *SpecEnv) index(x, i Val) Val {
	c := ev.ctx()
	if x.S == sortSl {
		i = ev.coerce(i, bvSort(64), types.Typ[types.Int])
		var et types.Type = types.Typ[types.Uint8]
		if x.Ty != nil {
			et = x.Ty.Underlying().(*types.Slice).Elem()
		}
		es := c.sortFor(et)
		if c.isDatatypeStruct(et) {
			return ev.loadPtr(&Ptr{Kind: pObj, Base: c.elemRef(slArr(x.T), sx("bvadd", slOff(x.T), i.T)), Elem: et})
		}
		h := c.elemHeap(es)
		return Val{T: sx("select", sx("select", ev.hget(h), slArr(x.T)), sx("bvadd", slOff(x.T), i.T)), S: es, Ty: et}
	}
	if ks, vs, ok := arrayParts(x.S); ok {
		i = ev.coerce(i, ks, nil)
		var et types.Type
		if x.Ty != nil {
			if at, ok := x.Ty.Underlying().(*types.Array); ok {
				et = at.Elem()
			}
		}
		return Val{T: sx("select", x.T, i.T), S: vs, Ty: et}
	}
	if x.Ty != nil {
		if mt, ok := x.Ty.Underlying().(*types.Map); ok {
			ks, vs := c.sortFor(mt.Key()), c.sortFor(mt.Elem())
			vh, _ := c.mapHeaps(ks, vs)
			i = ev.coerce(i, ks, mt.Key())
			return Val{T: sx("select", sx("select", ev.hget(vh), x.T), i.T), S: vs, Ty: mt.Elem()}
		}
		if pt, ok := x.Ty.Underlying().(*types.Pointer); ok {
			if at, ok := pt.Elem().Underlying().(*types.Array); ok {
				es := c.sortFor(at.Elem())
				h := c.elemHeap(es)
				i = ev.coerce(i, bvSort(64), types.Typ[types.Int])
				return Val{T: sx("select", sx("select", ev.hget(h), x.T), i.T), S: es, Ty: at.Elem()}
			}
		}
	}
	specFail("cannot index %s : %s", x.T, x.S)
	return Val{}
}

func bigPow2(n int) *big.Int { return new(big.Int).Lsh(big.NewInt(1), uint(n)) }

func (ev *SpecEnv) binop(n *Node) Val {
	op := n.Op
	tb := types.Typ[types.Bool]
	switch op {
	case "&&", "||", "==>", "<==>":
		a := ev.evalBool(n.Args[0])
		// short-circuit evaluation is irrelevant for terms
		b := ev.evalBool(n.Args[1])
		switch op {
		case "&&":
			return Val{T: smtAnd(a, b), S: sortBool, Ty: tb}
		case "||":
			return Val{T: smtOr(a, b), S: sortBool, Ty: tb}
		case "==>":
			return Val{T: smtImp(a, b), S: sortBool, Ty: tb}
		default:
			return Val{T: sx("=", a, b), S: sortBool, Ty: tb}
		}
	}
	a, b := ev.unify(ev.eval(n.Args[0]), ev.eval(n.Args[1]))
	if a.K != nil && b.K != nil {
		x, y := a.K, b.K
		r := new(big.Int)
		switch op {
		case "+":
			return kval(r.Add(x, y))
		case "-":
			return kval(r.Sub(x, y))
		case "*":
			return kval(r.Mul(x, y))
		case "/":
			return kval(r.Quo(x, y))
		case "%":
			return kval(r.Rem(x, y))
		case "<<":
			return kval(r.Lsh(x, uint(y.Int64())))
		case ">>":
			return kval(r.Rsh(x, uint(y.Int64())))
		case "&":
			return kval(r.And(x, y))
		case "|":
			return kval(r.Or(x, y))
		case "^":
			return kval(r.Xor(x, y))
		case "&^":
			return kval(r.AndNot(x, y))
		}
		cmp := x.Cmp(y)
		res := false
		switch op {
		case "==":
			res = cmp == 0
		case "!=":
			res = cmp != 0
		case "<":
			res = cmp < 0
		case "<=":
			res = cmp <= 0
		case ">":
			res = cmp > 0
		case ">=":
			res = cmp >= 0
		default:
			specFail("bad constant operation %s", op)
		}
		if res {
			return Val{T: "true", S: sortBool, Ty: tb}
		}
		return Val{T: "false", S: sortBool, Ty: tb}
	}
	if op == "==" || op == "!=" {
		var t string
		if a.S == sortSl && b.S == "nil" {
			t = sx("=", slArr(a.T), "nilarr")
		} else if b.S == sortSl && a.S == "nil" {
			t = sx("=", slArr(b.T), "nilarr")
		} else {
			if a.S != b.S {
				specFail("comparison of different sorts %s : %s and %s : %s in %s", a.T, a.S, b.T, b.S, n.String())
			}
			t = sx("=", a.T, b.T)
		}
		if op == "!=" {
			t = smtNot(t)
		}
		return Val{T: t, S: sortBool, Ty: tb}
	}
	if a.S == sortInt || b.S == sortInt {
		if a.S != b.S {
			specFail("mixing mathint and machine integers in %s", n.String())
		}
		switch op {
		case "+", "-", "*":
			return Val{T: sx(op, a.T, b.T), S: sortInt}
		case "<", "<=", ">", ">=":
			return Val{T: sx(op, a.T, b.T), S: sortBool, Ty: tb}
		}
		specFail("operation %s not supported on mathint", op)
	}
	w, ok := isBV(a.S)
	if !ok {
		specFail("arithmetic on non-integer %s : %s in %s", a.T, a.S, n.String())
	}
	uns := isUnsigned(a.Ty)
	if a.Ty == nil {
		uns = isUnsigned(b.Ty)
	}
	if op == "<<" || op == ">>" {
		// shift count: any width, unsigned semantics after widening
		cnt := b
		cw, ok := isBV(cnt.S)
		if !ok {
			specFail("bad shift count in %s", n.String())
		}
		ct := cnt.T
		if cw < w {
			ct = sx(fmt.Sprintf("(_ zero_extend %d)", w-cw), ct)
		} else if cw > w {
			// saturate: if count >= w the result is 0 / sign fill; bvshl already gives that when the count is truncated
			// only if the high bits are zero; handle by ite.
			hi := sx(fmt.Sprintf("(_ extract %d %d)", cw-1, w), ct)
			lo := sx(fmt.Sprintf("(_ extract %d 0)", w-1), ct)
			ct = smtIte(sx("=", hi, bvLitI(0, cw-w)), lo, bvLitI(int64(w), w))
		}
		if op == "<<" {
			return Val{T: sx("bvshl", a.T, ct), S: a.S, Ty: a.Ty}
		}
		if uns {
			return Val{T: sx("bvlshr", a.T, ct), S: a.S, Ty: a.Ty}
		}
		return Val{T: sx("bvashr", a.T, ct), S: a.S, Ty: a.Ty}
	}
	if a.S != b.S {
		specFail("operands of different widths in %s (%s vs %s)", n.String(), a.S, b.S)
	}
	ty := a.Ty
	if ty == nil {
		ty = b.Ty
	}
	arith := map[string]string{"+": "bvadd", "-": "bvsub", "*": "bvmul", "&": "bvand", "|": "bvor", "^": "bvxor"}
	if f, ok := arith[op]; ok {
		return Val{T: sx(f, a.T, b.T), S: a.S, Ty: ty}
	}
	switch op {
	case "&^":
		return Val{T: sx("bvand", a.T, sx("bvnot", b.T)), S: a.S, Ty: ty}
	case "/":
		if uns {
			return Val{T: sx("bvudiv", a.T, b.T), S: a.S, Ty: ty}
		}
		return Val{T: sx("bvsdiv", a.T, b.T), S: a.S, Ty: ty}
	case "%":
		if uns {
			return Val{T: sx("bvurem", a.T, b.T), S: a.S, Ty: ty}
		}
		return Val{T: sx("bvsrem", a.T, b.T), S: a.S, Ty: ty}
	}
	cmpU := map[string]string{"<": "bvult", "<=": "bvule", ">": "bvugt", ">=": "bvuge"}
	cmpS := map[string]string{"<": "bvslt", "<=": "bvsle", ">": "bvsgt", ">=": "bvsge"}
	if f, ok := cmpU[op]; ok {
		if !uns {
			f = cmpS[op]
		}
		return Val{T: sx(f, a.T, b.T), S: sortBool, Ty: tb}
	}
	specFail("unsupported operator %s", op)
	return Val{}
}

// convert implements Go integer conversion on terms.
func convertInt(c *Ctx, v Val, to types.Type) Val {
	ts := c.sortFor(to)
	tw, ok := isBV(ts)
	if !ok {
		panic(unsupported(fmt.Sprintf("conversion to %v", to)))
	}
	if v.K != nil {
		return Val{T: bvLit(v.K, tw), S: ts, Ty: to}
	}
	fw, ok := isBV(v.S)
	if !ok {
		panic(unsupported(fmt.Sprintf("conversion from %s to %v", v.S, to)))
	}
	var t string
	switch {
	case fw == tw:
		t = v.T
	case fw > tw:
		t = sx(fmt.Sprintf("(_ extract %d 0)", tw-1), v.T)
	case isUnsigned(v.Ty):
		t = sx(fmt.Sprintf("(_ zero_extend %d)", tw-fw), v.T)
	default:
		t = sx(fmt.Sprintf("(_ sign_extend %d)", tw-fw), v.T)
	}
	return Val{T: t, S: ts, Ty: to}
}

func (ev *SpecEnv) call(n *Node) Val {
	c := ev.ctx()
	ex := ev.st.ex
	name := n.Name
	tb := types.Typ[types.Bool]
	switch name {
	case "old":
		return ev.withHeap(ev.oldHeap()).eval(n.Args[0])
	case "called":
		// called(f): the contracted function f was called on this path (a static fact of the path)
		if len(n.Args) != 1 || n.Args[0].Kind != "ident" {
			specFail("called(f) takes a function name")
		}
		if ev.locals == nil {
			specFail("called() is only meaningful in an ensures_local clause")
		}
		if _, ok := ev.st.callRets[n.Args[0].Name]; ok {
			return Val{T: "true", S: sortBool, Ty: tb}
		}
		return Val{T: "false", S: sortBool, Ty: tb}
	case "returned":
		// returned(f, i): result number i of the last call to the contracted function f on this path
		if len(n.Args) != 2 || n.Args[0].Kind != "ident" {
			specFail("returned(f, i) takes a function name and a result index")
		}
		if ev.locals == nil {
			specFail("returned() is only meaningful in an ensures_local clause")
		}
		r, ok := ev.st.callRets[n.Args[0].Name]
		if !ok {
			specFail("returned(%s, _): no call to %s on this path (guard the clause: it is skipped where the call did not happen)", n.Args[0].Name, n.Args[0].Name)
		}
		idx := ev.eval(n.Args[1])
		if idx.K == nil {
			specFail("returned: result index must be a constant")
		}
		i := idx.K.Int64()
		if r.Tup == nil {
			if i != 0 {
				specFail("returned: %s has one result", n.Args[0].Name)
			}
			return r
		}
		if int(i) >= len(r.Tup) {
			specFail("returned: result index out of range")
		}
		return r.Tup[i]
	case "at_head":
		// at_head(x): the value the loop-carried variable x had when this iteration started
		if len(n.Args) != 1 || n.Args[0].Kind != "ident" {
			specFail("at_head takes one variable name")
		}
		if ev.head == nil {
			specFail("at_head is only meaningful in a step clause")
		}
		v, ok := ev.head[n.Args[0].Name]
		if !ok {
			specFail("at_head(%s): not a loop-carried variable of this loop", n.Args[0].Name)
		}
		return v
	case "len", "cap":
		x := ev.eval(n.Args[0])
		ti := types.Typ[types.Int]
		if x.S == sortSl {
			if name == "len" {
				return Val{T: slLen(x.T), S: bvSort(64), Ty: ti}
			}
			return Val{T: slCap(x.T), S: bvSort(64), Ty: ti}
		}
		if x.S == sortStr {
			return Val{T: sx("str_len", x.T), S: bvSort(64), Ty: ti}
		}
		if x.Ty != nil {
			if at, ok := x.Ty.Underlying().(*types.Array); ok {
				return Val{T: bv64(at.Len()), S: bvSort(64), Ty: ti}
			}
		}
		specFail("len of %s", x.S)
	case "ite":
		cnd := ev.evalBool(n.Args[0])
		a, b := ev.unify(ev.eval(n.Args[1]), ev.eval(n.Args[2]))
		if a.K != nil {
			specFail("ite over two untyped constants: convert one")
		}
		return Val{T: smtIte(cnd, a.T, b.T), S: a.S, Ty: a.Ty}
	case "has":
		m := ev.eval(n.Args[0])
		k := ev.eval(n.Args[1])
		mt, ok := m.Ty.Underlying().(*types.Map)
		if !ok {
			specFail("has() on non-map")
		}
		ks, vs := c.sortFor(mt.Key()), c.sortFor(mt.Elem())
		_, ph := c.mapHeaps(ks, vs)
		k = ev.coerce(k, ks, mt.Key())
		return Val{T: sx("select", sx("select", ev.hget(ph), m.T), k.T), S: sortBool, Ty: tb}
	case "fresh":
		x := ev.eval(n.Args[0])
		t := x.T
		if x.S == sortSl {
			t = slArr(x.T)
		}
		// allocated during the call: not allocated before it, and a real object.  Where a callee's
		// postcondition is assumed at a call site this also means: none of the objects the caller
		// allocated earlier on this path; the object then joins the caller's allocation list.
		ds := []string{smtNot(sx("alive0", t)), smtNot(sx("=", t, "nil")), smtNot(sx("=", t, "nilarr")), smtNot(sx("=", t, "textref"))}
		if ev.callFresh != nil {
			for _, f := range ev.st.fresh {
				ds = append(ds, smtNot(sx("=", t, f)))
			}
			*ev.callFresh = append(*ev.callFresh, t)
		}
		return Val{T: smtAnd(ds...), S: sortBool, Ty: tb}
	case "alive":
		// allocated at this point: before the entry of the current function, or on this path
		x := ev.eval(n.Args[0])
		alts := []string{sx("alive0", x.T)}
		if ev.heap == nil || true {
			for _, f := range ev.st.fresh {
				alts = append(alts, sx("=", x.T, f))
			}
		}
		return Val{T: smtOr(alts...), S: sortBool, Ty: tb}
	case "typeof":
		x := ev.eval(n.Args[0])
		return Val{T: sx("typeof", x.T), S: sortType}
	case "implements":
		x := ev.eval(n.Args[0])
		ty := ex.resolveType(n.Args[1].String(), ev.pkg)
		pred := c.implPred(ty)
		return Val{T: smtAnd(smtNot(sx("=", x.T, "iface_nil")), sx(pred, sx("typeof", x.T))), S: sortBool, Ty: tb}
	case "iface_of":
		// iface_of(x): x boxed into an interface value of its static type (what passing x as interface{} does)
		x := ev.eval(n.Args[0])
		if x.Ty == nil {
			specFail("iface_of: value of unknown type")
		}
		if x.S == sortIfc {
			return x
		}
		bx, _ := c.boxFns(x.Ty)
		return Val{T: sx(bx, x.T), S: sortIfc, Ty: types.NewInterfaceType(nil, nil)}
	case "unbox":
		// unbox(i, T): the value of concrete type T held by interface i
		x := ev.eval(n.Args[0])
		ty := ex.resolveType(n.Args[1].String(), ev.pkg)
		_, ub := c.boxFns(ty)
		return Val{T: sx(ub, x.T), S: c.sortFor(ty), Ty: ty}
	case "typeid":
		// typeid(T): run-time type constant of a Go type written as an identifier / selector
		ty := ex.resolveType(n.Args[0].String(), ev.pkg)
		return Val{T: c.typeConst(ty), S: sortType}
	case "contents":
		x := ev.eval(n.Args[0])
		if x.S != sortSl {
			specFail("contents() of a non-slice")
		}
		es := bvSort(8)
		if x.Ty != nil {
			es = c.sortFor(x.Ty.Underlying().(*types.Slice).Elem())
		}
		return Val{T: sx("select", ev.hget(c.elemHeap(es)), slArr(x.T)), S: arraySort(bvSort(64), es)}
	case "elems_unchanged_since_entry":
		// every backing array allocated before the function was entered still has its entry contents
		ty := ex.resolveType(n.Args[0].String(), ev.pkg)
		h := c.elemHeap(c.sortFor(ty))
		r := fmt.Sprintf("q!r!%d", ex.counter.Add(1))
		old := h
		if v, ok := ev.st.entry[h]; ok {
			old = v
		}
		return Val{T: fmt.Sprintf("(forall ((%s Ref)) (! (=> (alive0 %s) (= (select %s %s) (select %s %s))) :pattern ((select %s %s))))", r, r, ev.hget(h), r, old, r, ev.hget(h), r), S: sortBool, Ty: tb}
	case "elems_unchanged_in_loop":
		// every backing array that existed when the enclosing loop was entered still has the contents it had then
		ty := ex.resolveType(n.Args[0].String(), ev.pkg)
		h := c.elemHeap(c.sortFor(ty))
		r := fmt.Sprintf("q!r!%d", ex.counter.Add(1))
		old := h
		if v, ok := ev.st.loopHeap[h]; ok {
			old = v
		}
		alts := []string{sx("alive0", r)}
		for _, f := range ev.st.loopFresh {
			alts = append(alts, sx("=", r, f))
		}
		return Val{T: fmt.Sprintf("(forall ((%s Ref)) (! (=> %s (= (select %s %s) (select %s %s))) :pattern ((select %s %s))))", r, smtOr(alts...), ev.hget(h), r, old, r, ev.hget(h), r), S: sortBool, Ty: tb}
	case "call_result", "call_panics":
		// call_result(f, args...) / call_panics(f, args...): result / panic behaviour of calling func value f (uninterpreted)
		f := ev.eval(n.Args[0])
		if f.Ty == nil {
			specFail("%s: function value of unknown type", name)
		}
		sig, ok := f.Ty.Underlying().(*types.Signature)
		if !ok {
			specFail("%s: not a func value", name)
		}
		var as []Val
		for _, a := range n.Args[1:] {
			as = append(as, ev.eval(a))
		}
		if name == "call_panics" {
			fn := c.declFun("panics!"+sigID(sig), append([]string{sortFunc}, sortsOf(as)...), sortBool)
			return Val{T: sx(fn, append([]string{f.T}, termsOf(as)...)...), S: sortBool, Ty: tb}
		}
		if sig.Results().Len() != 1 {
			specFail("call_result: function must have exactly one result")
		}
		rs := c.sortFor(sig.Results().At(0).Type())
		fn := c.declFun("apply!"+sigID(sig), append([]string{sortFunc}, sortsOf(as)...), rs)
		return Val{T: sx(fn, append([]string{f.T}, termsOf(as)...)...), S: rs, Ty: sig.Results().At(0).Type()}
	case "visited", "iterating":
		// visited(k): the key k of the map being ranged over has been visited by the (innermost) range loop
		// iterating(k): k was present in that map when the loop was reached
		it := ev.st.iters[ev.st.lastIter]
		if it == nil {
			specFail("%s(): no map range loop in this function", name)
		}
		k := ev.coerce(ev.eval(n.Args[0]), it.KS, it.KT)
		if name == "iterating" {
			return Val{T: sx("select", it.Pres, k.T), S: sortBool, Ty: tb}
		}
		return Val{T: sx("select", ev.hget(it.Heap), k.T), S: sortBool, Ty: tb}
	case "iter_value":
		it := ev.st.iters[ev.st.lastIter]
		if it == nil {
			specFail("iter_value(): no map range loop in this function")
		}
		k := ev.coerce(ev.eval(n.Args[0]), it.KS, it.KT)
		return Val{T: sx("select", it.Vals, k.T), S: it.VS, Ty: it.VT}
	case "elem_ref":
		// elem_ref(s, i): the object identity (&s[i]) of element i of a slice of structs
		x := ev.eval(n.Args[0])
		i := ev.coerce(ev.eval(n.Args[1]), bvSort(64), types.Typ[types.Int])
		var et types.Type
		if x.Ty != nil {
			et = x.Ty.Underlying().(*types.Slice).Elem()
		}
		return Val{T: c.elemRef(slArr(x.T), sx("bvadd", slOff(x.T), i.T)), S: sortRef, Ty: types.NewPointer(et)}
	case "arr", "off":
		x := ev.eval(n.Args[0])
		if name == "arr" {
			return Val{T: slArr(x.T), S: sortRef}
		}
		return Val{T: slOff(x.T), S: bvSort(64), Ty: types.Typ[types.Uintptr]}
	case "mkslice":
		a := ev.coerce(ev.eval(n.Args[0]), sortRef, nil)
		o := ev.coerce(ev.eval(n.Args[1]), bvSort(64), nil)
		l := ev.coerce(ev.eval(n.Args[2]), bvSort(64), nil)
		cp := ev.coerce(ev.eval(n.Args[3]), bvSort(64), nil)
		return Val{T: mkSlice(a.T, o.T, l.T, cp.T), S: sortSl, Ty: types.NewSlice(types.Typ[types.Uint8])}
	case "addr":
		// addr(global) : Ref of a package-level variable; addr(p) : machine address of a Ref
		if n.Args[0].Kind == "ident" {
			if _, isVar := ev.vars[n.Args[0].Name]; !isVar && ev.pkg != nil {
				if obj, ok := ev.pkg.Scope().Lookup(n.Args[0].Name).(*types.Var); ok {
					return Val{T: ex.globalRef(obj), S: sortRef, Ty: types.NewPointer(obj.Type())}
				}
			}
		}
		if n.Args[0].Kind == "sel" && n.Args[0].Args[0].Kind == "ident" {
			if _, isVar := ev.vars[n.Args[0].Args[0].Name]; !isVar {
				if p := ex.pkgByName(n.Args[0].Args[0].Name); p != nil {
					if obj, ok := p.Scope().Lookup(n.Args[0].Name).(*types.Var); ok {
						return Val{T: ex.globalRef(obj), S: sortRef, Ty: types.NewPointer(obj.Type())}
					}
				}
			}
		}
		x := ev.eval(n.Args[0])
		if x.S != sortRef {
			specFail("addr() of a non-reference %s", x.S)
		}
		return Val{T: sx("addr_of", x.T), S: bvSort(64), Ty: types.Typ[types.Uintptr]}
	case "mathint":
		x := ev.eval(n.Args[0])
		if x.K != nil {
			return ev.coerce(x, sortInt, nil)
		}
		if isUnsigned(x.Ty) {
			return Val{T: sx("bv2nat", x.T), S: sortInt}
		}
		w, _ := isBV(x.S)
		// signed interpretation
		return Val{T: smtIte(sx("bvslt", x.T, bvLitI(0, w)), sx("-", sx("bv2nat", x.T), bigPow2(w).String()), sx("bv2nat", x.T)), S: sortInt}
	}
	if sf, ok := ex.db.Funcs[name]; ok {
		return ev.applySpecFunc(sf, n)
	}
	if i := strings.LastIndex(name, "."); i >= 0 {
		if sf, ok := ex.db.Funcs[name[i+1:]]; ok {
			return ev.applySpecFunc(sf, n)
		}
	}
	// conversion?
	if len(n.Args) == 1 && ex.isTypeName(name, ev.pkg) {
		to := ex.resolveType(name, ev.pkg)
		x := ev.eval(n.Args[0])
		if isInteger(to) {
			return convertInt(c, x, to)
		}
		ts := c.sortFor(to)
		if x.S == "nil" {
			return ev.coerce(x, ts, to)
		}
		if x.S == ts {
			x.Ty = to
			return x
		}
		if ts == sortRef {
			if _, ok := isBV(x.S); ok {
				return Val{T: sx("ptr_at", x.T), S: sortRef, Ty: to}
			}
		}
		specFail("unsupported conversion %s(%s)", name, x.S)
	}
	specFail("unknown function %q in contract", name)
	return Val{}
}

func (ev *SpecEnv) applySpecFunc(sf *SpecFunc, n *Node) Val {
	c := ev.ctx()
	ex := ev.st.ex
	if len(n.Args) != len(sf.Params) {
		specFail("%s expects %d arguments", sf.Name, len(sf.Params))
	}
	var pkg *types.Package
	if sf.Pkg != "" {
		pkg = ex.pkgByPath(sf.Pkg)
	}
	if pkg == nil {
		pkg = ev.pkg
	}
	sortOfText := func(t string) (string, types.Type) {
		if t == "mathint" {
			return sortInt, nil
		}
		if t == "RType" {
			return sortType, nil
		}
		if t == "bytes" {
			return arraySort(bvSort(64), bvSort(8)), nil
		}
		ty := ex.resolveType(t, pkg)
		return c.sortFor(ty), ty
	}
	args := make([]Val, len(n.Args))
	for i, a := range n.Args {
		v := ev.eval(a)
		s, ty := sortOfText(sf.Params[i].Type)
		v = ev.coerce(v, s, ty)
		if v.S != s {
			specFail("argument %d of %s: have %s, want %s", i, sf.Name, v.S, s)
		}
		if v.Ty == nil {
			v.Ty = ty
		}
		args[i] = v
	}
	rs, rty := sortOfText(sf.Ret)
	if sf.Body == nil {
		var as, ss []string
		for _, a := range args {
			as = append(as, a.T)
			ss = append(ss, a.S)
		}
		fn := c.declFun("sf!"+sf.Name, ss, rs)
		if len(as) == 0 {
			return Val{T: fn, S: rs, Ty: rty}
		}
		return Val{T: sx(fn, as...), S: rs, Ty: rty}
	}
	if ev.depth > 40 {
		specFail("spec function recursion too deep at %s", sf.Name)
	}
	nev := &SpecEnv{st: ev.st, heap: ev.heap, old: ev.old, vars: map[string]Val{}, pkg: pkg, depth: ev.depth + 1}
	for i, p := range sf.Params {
		nev.vars[p.Name] = args[i]
	}
	r := nev.eval(sf.Body)
	r = ev.coerce(r, rs, rty)
	if r.S != rs {
		specFail("body of %s has sort %s, declared %s", sf.Name, r.S, rs)
	}
	r.Ty = rty
	// name the expansion so that repeated uses share one definition (keeps queries small)
	if len(r.T) > 60 && !strings.Contains(r.T, "q!") && r.K == nil {
		r.T = ev.st.define("sf."+sf.Name, rs, r.T)
	}
	return r
}
