package main

// exec_core.go — program loading, per-function verification driver, loop cuts.

import (
	"fmt"
	"go/types"
	"os"
	"path/filepath"
	"sort"
	"strings"
	"sync"
	"sync/atomic"

	"golang.org/x/tools/go/packages"
	"golang.org/x/tools/go/ssa"
	"golang.org/x/tools/go/ssa/ssautil"
)

const repoMod = "github.com/tencent/goom"

type Exec struct {
	ctx     *Ctx
	db      *SpecDB
	prog    *ssa.Program
	pkgs    []*packages.Package
	spkgs   map[string]*ssa.Package
	tpkgs   map[string]*types.Package // by path
	byName  map[string]*types.Package // by package name (first wins; repo packages preferred)
	counter atomic.Int64
	funcs   map[string]*ssa.Function // FullName key -> function (repo functions incl. closures)
	arch    string

	mu     sync.Mutex
	obls   []*Obligation
	issues []string // unsupported constructs etc.
	assume map[string]bool
	purePk map[string]bool

	ifaceAsserts []ifaceAssert
	cur          *funcRun // function being verified (one at a time per Exec)
}

type ifaceAssert struct {
	key string
	it  *types.Interface
}

type Obligation struct {
	Name        string // <pkg>.<Func>#<kind>:<label>[@site]
	Func        string
	Kind        string
	Label       string
	Props       []string
	Query       string   // SMT text (without check-sat)
	Values      []string // terms to get-value
	Trace       string
	Result      SolveResult
	Vacuity     bool              // must be SAT (reachability / satisfiable precondition)
	Canary      bool              // must NOT be unsat
	Probe       bool              // informational dead-code probe (debug)
	Inputs      map[string]string // human name -> SMT term
	Clause      string
	ResultTerms []string
	lines       []string
	goal        string
	funcKey     string
	inputVals   map[string]Val
	extraVars   map[string]Val
}

func (ex *Exec) pkgByName(name string) *types.Package { return ex.byName[name] }
func (ex *Exec) pkgByPath(path string) *types.Package { return ex.tpkgs[path] }

func (ex *Exec) globalRef(v *types.Var) string {
	name := "g!" + smtIdent(v.Pkg().Path()+"."+v.Name())
	ex.ctx.declConst(name, sortRef)
	ex.ctx.fact("gnn!"+name, smtAnd(smtNot(sx("=", name, "nil")), sx("alive0", name), smtNot(sx("=", name, "textref")), smtNot(sx("=", name, "nilarr"))), name)
	return name
}

func (ex *Exec) issue(f string, a ...interface{}) {
	ex.mu.Lock()
	defer ex.mu.Unlock()
	ex.issues = append(ex.issues, fmt.Sprintf(f, a...))
}

func (ex *Exec) noteAssumption(s string) {
	ex.mu.Lock()
	defer ex.mu.Unlock()
	ex.assume[s] = true
}

func loadProgram(repo, arch string) (*Exec, error) {
	env := append(os.Environ(), "GOARCH="+arch, "GOFLAGS=-mod=mod", "GOPROXY=off", "GOSUMDB=off", "GOTOOLCHAIN=local", "CGO_ENABLED=0")
	cfg := &packages.Config{Mode: packages.LoadAllSyntax, Dir: repo, BuildFlags: []string{"-tags=verif"}, Env: env}
	pkgs, err := packages.Load(cfg, "./...")
	if err != nil {
		return nil, err
	}
	for _, p := range pkgs {
		for _, e := range p.Errors {
			// packages that do not compile for this GOARCH are skipped, but reported
			fmt.Fprintf(os.Stderr, "load: %s: %v\n", p.PkgPath, e)
		}
	}
	prog, _ := ssautil.AllPackages(pkgs, ssa.InstantiateGenerics|ssa.GlobalDebug)
	prog.Build()
	ex := &Exec{prog: prog, pkgs: pkgs, spkgs: map[string]*ssa.Package{}, tpkgs: map[string]*types.Package{},
		byName: map[string]*types.Package{}, funcs: map[string]*ssa.Function{}, arch: arch, assume: map[string]bool{}, purePk: map[string]bool{}}
	ex.ctx = newCtx(types.SizesFor("gc", arch))
	ex.ctx.inRepo = func(p *types.Package) bool { return p != nil && strings.HasPrefix(p.Path(), repoMod) }
	ex.db = newSpecDB()
	packages.Visit(pkgs, nil, func(p *packages.Package) {
		if p.Types == nil {
			return
		}
		ex.tpkgs[p.PkgPath] = p.Types
		if old, ok := ex.byName[p.Name]; !ok || (!strings.HasPrefix(old.Path(), repoMod) && strings.HasPrefix(p.PkgPath, repoMod)) || (len(p.PkgPath) < len(old.Path()) && !strings.HasPrefix(old.Path(), repoMod)) {
			ex.byName[p.Name] = p.Types
		}
	})
	for _, sp := range prog.AllPackages() {
		ex.spkgs[sp.Pkg.Path()] = sp
	}
	for fn := range ssautil.AllFunctions(prog) {
		if fn.Pkg == nil && fn.Parent() == nil {
			continue
		}
		ex.funcs[funcKey(fn)] = fn
	}
	return ex, nil
}

// funcKey is the contract key of an SSA function: types.Func.FullName() for
// declared functions, Parent$N for closures.
func funcKey(fn *ssa.Function) string {
	if fn.Parent() != nil {
		return funcKey(fn.Parent()) + fn.Name()[strings.LastIndex(fn.Name(), "$"):]
	}
	if obj, ok := fn.Object().(*types.Func); ok && obj != nil {
		return obj.FullName()
	}
	if fn.Pkg != nil {
		return fn.Pkg.Pkg.Path() + "." + fn.Name()
	}
	return fn.String()
}

// loadSpecs reads the contract files: contracts_verif.go in every repo
// package, and /verif/spec/*.spec.
func (ex *Exec) loadSpecs(specDir string) error {
	files, _ := filepath.Glob(filepath.Join(specDir, "*.spec"))
	sort.Strings(files)
	for _, f := range files {
		if err := ex.db.loadSpecFile(f, ""); err != nil {
			return err
		}
		data, _ := os.ReadFile(f)
		for _, l := range strings.Split(string(data), "\n") {
			l = strings.TrimSpace(l)
			if strings.HasPrefix(l, "//! purepkg ") {
				for _, p := range strings.Fields(l[len("//! purepkg "):]) {
					ex.purePk[p] = true
				}
			}
		}
	}
	for _, p := range ex.pkgs {
		if len(p.GoFiles) == 0 {
			continue
		}
		dir := filepath.Dir(p.GoFiles[0])
		cfs, _ := filepath.Glob(filepath.Join(dir, "contracts_verif*.go"))
		sort.Strings(cfs)
		for _, cf := range cfs {
			base := strings.TrimSuffix(filepath.Base(cf), ".go")
			if i := strings.LastIndex(base, "_"); i >= 0 {
				if suf := base[i+1:]; suf != "verif" && suf != ex.arch {
					continue // contracts for another GOARCH
				}
			}
			if err := ex.db.loadSpecFile(cf, p.PkgPath); err != nil {
				return err
			}
		}
	}
	return nil
}

// ---------------------------------------------------------------------------
// loops

type loopInfo struct {
	header  *ssa.BasicBlock
	body    map[int]bool // block indices in the natural loop (incl. header)
	ordinal int
}

func findLoops(fn *ssa.Function) map[int]*loopInfo {
	loops := map[int]*loopInfo{}
	for _, b := range fn.Blocks {
		for _, s := range b.Succs {
			if s.Dominates(b) { // back edge b -> s
				li := loops[s.Index]
				if li == nil {
					li = &loopInfo{header: s, body: map[int]bool{s.Index: true}}
					loops[s.Index] = li
				}
				// natural loop: nodes that reach b without passing s
				stack := []*ssa.BasicBlock{b}
				for len(stack) > 0 {
					x := stack[len(stack)-1]
					stack = stack[:len(stack)-1]
					if li.body[x.Index] {
						continue
					}
					li.body[x.Index] = true
					stack = append(stack, x.Preds...)
				}
			}
		}
	}
	// ordinals in source order of header position (block index order is source order in go/ssa)
	var hs []int
	for h := range loops {
		hs = append(hs, h)
	}
	sort.Ints(hs)
	for i, h := range hs {
		loops[h].ordinal = i + 1
	}
	return loops
}

// Frame is one activation (the function under contract, or an inlined closure).
type Frame struct {
	fn     *ssa.Function
	vals   map[ssa.Value]Val
	parent *Frame
	loops  map[int]*loopInfo
	top    bool
	// safety ordinals
	ord map[ssa.Instruction]string
	// deferred calls of this activation
	defers    []*ssa.Defer
	deferArgs [][]Val
	deferFn   []Val
	names     map[string]nameBinding // source variable name -> value (from DebugRef / phi comments)
	onReturn  func(st *State, results []Val)
	// return linkage of an inlined closure
	retBlock   *ssa.BasicBlock
	retIdx     int
	retPred    *ssa.BasicBlock
	retRes     ssa.Value
	retUnwind  bool
	isDeferred bool
	elide      *elideInfo
}

type nameBinding struct {
	v      Val
	isAddr bool
}

func (fr *Frame) cloneChain() *Frame {
	if fr == nil {
		return nil
	}
	n := fr.clone()
	n.parent = fr.parent.cloneChain()
	return n
}

func (fr *Frame) clone() *Frame {
	n := *fr
	n.vals = make(map[ssa.Value]Val, len(fr.vals))
	for k, v := range fr.vals {
		n.vals[k] = v
	}
	n.names = make(map[string]nameBinding, len(fr.names))
	for k, v := range fr.names {
		n.names[k] = v
	}
	n.defers = append([]*ssa.Defer(nil), fr.defers...)
	n.deferArgs = append([][]Val(nil), fr.deferArgs...)
	n.deferFn = append([]Val(nil), fr.deferFn...)
	return &n
}

// siteName gives a stable name to an instruction: <kind><k> where k counts
// instructions of that kind in source order within the function.
func siteNames(fn *ssa.Function) map[ssa.Instruction]string {
	m := map[ssa.Instruction]string{}
	cnt := map[string]int{}
	for _, b := range fn.Blocks {
		for _, in := range b.Instrs {
			kind := ""
			switch x := in.(type) {
			case *ssa.IndexAddr, *ssa.Index:
				kind = "index"
			case *ssa.Slice:
				kind = "slice"
			case *ssa.FieldAddr:
				kind = "nilfield"
			case *ssa.UnOp:
				if x.Op.String() == "*" {
					kind = "nilderef"
				}
			case *ssa.Store:
				kind = "nilstore"
			case *ssa.TypeAssert:
				kind = "typeassert"
			case *ssa.BinOp:
				if x.Op.String() == "/" || x.Op.String() == "%" {
					kind = "div"
				}
			case *ssa.Panic:
				kind = "panic"
			case *ssa.MapUpdate:
				kind = "mapupdate"
			case *ssa.MakeSlice:
				kind = "makeslice"
			case *ssa.Call:
				kind = "call." + callName(&x.Call)
			case *ssa.Defer:
				kind = "defer." + callName(&x.Call)
			}
			if kind != "" {
				cnt[kind]++
				m[in] = fmt.Sprintf("%s%d", kind, cnt[kind])
				if strings.HasPrefix(kind, "call.") || strings.HasPrefix(kind, "defer.") {
					m[in] = fmt.Sprintf("%s#%d", kind[strings.Index(kind, ".")+1:], cnt[kind])
				}
			}
		}
	}
	return m
}

func callName(c *ssa.CallCommon) string {
	if c.IsInvoke() {
		return c.Method.Name()
	}
	if f := c.StaticCallee(); f != nil {
		return f.Name()
	}
	if b, ok := c.Value.(*ssa.Builtin); ok {
		return b.Name()
	}
	return "funcvalue"
}

func shortFuncName(key string) string {
	return strings.ReplaceAll(key, repoMod+"/", "")
}
