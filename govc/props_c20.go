package main

import "strings"

const c20Hammer = `package stub

import (
	"sync"
	"testing"
)

// The solver's counterexample for owned_region is a schedule: another goroutine advances the
// counter between this call's Load and Add.  Re-enacted with 16 goroutines requesting 1 byte each.
func TestGovcReplay(t *testing.T) {
	const workers, per = 16, 600
	var mu sync.Mutex
	seen := map[uintptr]int{}
	var wg sync.WaitGroup
	start := make(chan struct{})
	for w := 0; w < workers; w++ {
		wg.Add(1)
		go func() {
			defer wg.Done()
			<-start
			local := make([]uintptr, 0, per)
			for i := 0; i < per; i++ {
				addr, _, err := acquireFromHolder(1)
				if err != nil {
					break
				}
				local = append(local, addr)
			}
			mu.Lock()
			for _, a := range local {
				seen[a]++
			}
			mu.Unlock()
		}()
	}
	close(start)
	wg.Wait()
	dups := 0
	for _, n := range seen {
		if n > 1 {
			dups += n - 1
		}
	}
	if dups > 0 {
		t.Fatalf("acquireFromHolder handed out %d regions that overlap an earlier one (%d distinct)", dups, len(seen))
	}
}
`

func init() {
	registerProperty(&PropertyConfig{
		ID:      "C20",
		Explain: "stub-space functions proved against contracts: returned region == the fetch-and-add ticket [new-len,new), inside [min,max]; mmap path returns a fresh region; Write copies into it",
		Trusted: []string{"fetch-and-add ownership meta-theorem: tickets [new-delta,new) of distinct atomic.AddUintptr calls on a counter that is only ever added to are pairwise disjoint (schedules are not explored)", "syscall.Mmap returns a fresh region of exactly the requested length or an error", "the bump counter never approaches 2^63 (no wrap-around)", "package-level initialisers have run (errSpaceOverflow != nil, placeHolderIns set by init)"},
		Replay: func(o *Options, g *groupResult, model map[string]string) (string, string, bool) {
			if strings.Contains(g.name, "acquireFromHolder") {
				return "internal/bytecode/stub", c20Hammer, true
			}
			return "", "", false
		},
	})
}
