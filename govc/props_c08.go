package main

const c08Replay = `package mocker

import "testing"

var govcReplayVar = 1
var govcReplayErr error

// History re-enacting the failing ghost state: Set twice then Reset; Reset of a never-set
// variable mock; a variable whose original value is a nil interface.
func TestGovcReplay(t *testing.T) {
	mk := Create()
	mk.Var(&govcReplayVar).Set(2)
	mk.Var(&govcReplayVar).Set(3)
	mk.Reset()
	if govcReplayVar != 1 {
		t.Errorf("after Set(2); Set(3); Reset the variable holds %d, want the pre-mock value 1", govcReplayVar)
	}
	func() {
		defer func() {
			if r := recover(); r != nil {
				t.Errorf("Reset of a variable mock that was never set panicked: %v", r)
			}
		}()
		mk2 := Create()
		mk2.Var(&govcReplayVar)
		mk2.Reset()
		if govcReplayVar != 1 {
			t.Errorf("never-set variable changed to %d", govcReplayVar)
		}
	}()
	func() {
		defer func() {
			if r := recover(); r != nil {
				t.Errorf("restoring a nil interface original panicked: %v", r)
			}
		}()
		mk3 := Create()
		mk3.Var(&govcReplayErr).Set(errGovc{})
		mk3.Reset()
		if govcReplayErr != nil {
			t.Errorf("nil interface original not restored: %v", govcReplayErr)
		}
	}()
}

type errGovc struct{}

func (errGovc) Error() string { return "x" }
`

func init() {
	registerProperty(&PropertyConfig{
		ID:      "C08",
		Explain: "ghost first-value history on defaultVarMocker: doSet must keep 'remembered original == value before the first overwrite', Cancel must write that value back and must not panic on a never-set mocker",
		Trusted: []string{"reflect model (/verif/spec/reflect.spec): Elem/Set/Interface on the addressable view of a variable, assignability"},
		Replay: func(o *Options, g *groupResult, model map[string]string) (string, string, bool) {
			return ".", c08Replay, true
		},
	})
}
