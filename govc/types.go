package main

// types.go — mapping of Go types to SMT sorts, symbolic values, declarations.

import (
	"fmt"
	"go/types"
	"math/big"
	"sort"
	"strings"
	"sync"
)

// Val is a symbolic value.
type Val struct {
	T    string     // SMT term
	S    string     // SMT sort
	Ty   types.Type // Go type when known
	P    *Ptr       // structured pointer (pointers into objects have no Ref term)
	Tup  []Val      // tuple (multi-value call results)
	K    *big.Int   // untyped integer constant (spec evaluation only)
	Clo  *Closure   // closure made in this function (inlined when deferred/called)
	Orig types.Type // pointee type before a cast through unsafe.Pointer
}

type Closure struct {
	Fn       interface{} // *ssa.Function
	Bindings []Val
}

const (
	pObj       = iota // whole object addressed by a Ref
	pField            // field Heap of struct object Base
	pElem             // element Idx of array object / slice backing Base (heap E!sort)
	pFieldElem        // element Idx of array-typed field Heap of struct object Base
	pGlobal           // package-level variable (heap variable Heap)
	pRaw              // pointer obtained from a uintptr / unsafe cast: Base is a Ref term, typed view Elem
)

type Ptr struct {
	Kind int
	Base string     // Ref term
	Heap string     // heap array / variable name
	Idx  string     // BV64 term
	Elem types.Type // pointee type
}

// Ctx collects global declarations (sorts, heap arrays, uninterpreted
// functions) shared by all queries of a run.
type Ctx struct {
	mu       sync.Mutex
	decls    []string
	declared map[string]string // name -> sort/signature text
	sizes    types.Sizes
	typeIDs  map[string]types.Type // ty!X constants
	strLits  map[string]string
	sortOf   map[string]string // struct key -> sort name (datatype or opaque)
	inRepo   func(*types.Package) bool
	heapSort map[string]string
	facts    []ctxFact // global axioms added lazily (box/unbox, implements, distinct)
	declName []string
	factSeen map[string]bool
	ifaces   map[string]*types.Interface // interfaces used in type assertions / implements()
}

func newCtx(sizes types.Sizes) *Ctx {
	return &Ctx{
		declared: map[string]string{}, sizes: sizes, typeIDs: map[string]types.Type{},
		strLits: map[string]string{}, sortOf: map[string]string{}, heapSort: map[string]string{},
		factSeen: map[string]bool{}, ifaces: map[string]*types.Interface{},
	}
}

type ctxFact struct {
	owners []string // the fact is included when one of these symbols occurs in the query
	text   string
}

func (c *Ctx) declare(name, decl string) {
	c.mu.Lock()
	defer c.mu.Unlock()
	if _, ok := c.declared[name]; ok {
		return
	}
	c.declared[name] = decl
	c.decls = append(c.decls, decl)
	c.declName = append(c.declName, name)
}

func (c *Ctx) declConst(name, sort string) string {
	c.declare(name, fmt.Sprintf("(declare-const %s %s)", name, sort))
	return name
}

func (c *Ctx) declFun(name string, args []string, ret string) string {
	c.declare(name, fmt.Sprintf("(declare-fun %s (%s) %s)", name, strings.Join(args, " "), ret))
	return name
}

// fact registers a global axiom.  key doubles as the owner symbol unless
// owners are given: the axiom is emitted only into queries that mention an owner.
func (c *Ctx) fact(key, assertion string, owners ...string) {
	c.mu.Lock()
	defer c.mu.Unlock()
	if c.factSeen[key] {
		return
	}
	c.factSeen[key] = true
	if len(owners) == 0 {
		owners = []string{key}
	}
	c.facts = append(c.facts, ctxFact{owners, assertion})
}

// ctxSnap is an immutable copy of the declarations and facts.
type ctxSnap struct {
	decls    []string
	declName []string
	facts    []ctxFact
	typeIDs  []string
	strLits  []string
}

// implPred returns the predicate "dynamic type implements interface it".
func (c *Ctx) implPred(t types.Type) string {
	it := t.Underlying().(*types.Interface)
	key := typeKey(t)
	c.mu.Lock()
	c.ifaces[key] = it
	c.mu.Unlock()
	return c.declFun("impl!"+key, []string{sortType}, sortBool)
}

func (c *Ctx) snapshot() *ctxSnap {
	// implements-facts for every (interface, concrete type constant) pair seen so far
	c.mu.Lock()
	type pair struct {
		ik string
		it *types.Interface
		tk string
		tt types.Type
	}
	var ps []pair
	for ik, it := range c.ifaces {
		for tk, tt := range c.typeIDs {
			ps = append(ps, pair{ik, it, tk, tt})
		}
	}
	c.mu.Unlock()
	for _, p := range ps {
		f := sx("impl!"+p.ik, p.tk)
		if !types.Implements(p.tt, p.it) {
			f = smtNot(f)
		}
		c.fact("impl!"+p.ik+"!"+p.tk, f, p.tk)
	}
	// reflect kinds of the run-time type constants (when the reflect model is in use)
	c.mu.Lock()
	_, hasKind := c.declared["sf!rt_kind"]
	_, hasOf := c.declared["sf!rt_of"]
	var tks []string
	tts := map[string]types.Type{}
	for tk, tt := range c.typeIDs {
		tks = append(tks, tk)
		tts[tk] = tt
	}
	c.mu.Unlock()
	if hasKind && hasOf {
		for _, tk := range tks {
			if k := reflectKindOf(tts[tk]); k >= 0 {
				c.fact("kind!"+tk, sx("=", sx("sf!rt_kind", sx("sf!rt_of", tk)), bvLitI(int64(k), 64)), tk)
			}
		}
	}
	c.mu.Lock()
	defer c.mu.Unlock()
	sn := &ctxSnap{decls: append([]string(nil), c.decls...), declName: append([]string(nil), c.declName...), facts: append([]ctxFact(nil), c.facts...)}
	for k := range c.typeIDs {
		sn.typeIDs = append(sn.typeIDs, k)
	}
	for _, v := range c.strLits {
		sn.strLits = append(sn.strLits, v)
	}
	sort.Strings(sn.typeIDs)
	sort.Strings(sn.strLits)
	return sn
}

func smtTokens(s string, into map[string]bool) {
	start := -1
	for i := 0; i <= len(s); i++ {
		if i == len(s) || s[i] == ' ' || s[i] == '(' || s[i] == ')' || s[i] == '\n' || s[i] == '\t' {
			if start >= 0 {
				into[s[start:i]] = true
				start = -1
			}
			continue
		}
		if start < 0 {
			start = i
		}
	}
}

var preludeAxioms = []ctxFact{
	{[]string{"ptr_at"}, "(forall ((x (_ BitVec 64))) (! (= (addr_of (ptr_at x)) x) :pattern ((ptr_at x))))"},
	{[]string{"addr_of"}, "(= (addr_of nil) #x0000000000000000)"},
	{[]string{"textref"}, "(not (= textref nil))"},
	{[]string{"textref"}, "(not (= textref nilarr))"},
	{[]string{"textref"}, "(alive0 textref)"},
}

// query assembles prelude + the declarations and facts in the cone of
// influence of the given body (path lines and negated goal).
func (sn *ctxSnap) query(body string) string {
	used := map[string]bool{}
	smtTokens(body, used)
	declText := map[string]string{}
	for i, n := range sn.declName {
		declText[n] = sn.decls[i]
	}
	facts := append(append([]ctxFact(nil), preludeAxioms...), sn.facts...)
	inFact := make([]bool, len(facts))
	inDecl := map[string]bool{}
	for changed := true; changed; {
		changed = false
		for i, f := range facts {
			if inFact[i] {
				continue
			}
			for _, o := range f.owners {
				if used[o] {
					inFact[i] = true
					smtTokens(f.text, used)
					changed = true
					break
				}
			}
		}
		for _, n := range sn.declName {
			if !inDecl[n] && used[n] {
				inDecl[n] = true
				smtTokens(declText[n], used)
				changed = true
			}
		}
		// datatype declarations are owned by their sort name, constructor and accessors
		for _, n := range sn.declName {
			if inDecl[n] || !strings.HasPrefix(n, "S!") {
				continue
			}
			key := n[2:]
			if used["mk!"+key] {
				inDecl[n] = true
				smtTokens(declText[n], used)
				changed = true
				continue
			}
			for tkn := range used {
				if strings.HasPrefix(tkn, "f!"+key+"!") {
					inDecl[n] = true
					smtTokens(declText[n], used)
					changed = true
					break
				}
			}
		}
	}
	var b strings.Builder
	b.WriteString(smtPrelude)
	// sorts/datatypes first (in declaration order), then the rest
	for _, n := range sn.declName {
		if inDecl[n] {
			b.WriteString(declText[n])
			b.WriteByte('\n')
		}
	}
	for i, f := range facts {
		if inFact[i] {
			b.WriteString("(assert " + f.text + ")\n")
		}
	}
	var tys, strs []string
	for _, k := range sn.typeIDs {
		if used[k] {
			tys = append(tys, k)
		}
	}
	for _, k := range sn.strLits {
		if used[k] {
			strs = append(strs, k)
		}
	}
	if len(tys) > 1 {
		b.WriteString("(assert (distinct " + strings.Join(tys, " ") + "))\n")
	}
	if len(strs) > 1 {
		b.WriteString("(assert (distinct " + strings.Join(strs, " ") + "))\n")
	}
	b.WriteString(body)
	return b.String()
}

func typeKey(t types.Type) string {
	return smtIdent(types.TypeString(t, func(p *types.Package) string { return p.Path() }))
}

// sortFor maps a Go type to an SMT sort, declaring what is needed.
func (c *Ctx) sortFor(t types.Type) string {
	switch u := t.(type) {
	case *types.Named:
		if st, ok := u.Underlying().(*types.Struct); ok {
			return c.structSort(u, st)
		}
		return c.sortFor(u.Underlying())
	case *types.Alias:
		return c.sortFor(types.Unalias(u))
	case *types.Basic:
		switch {
		case u.Info()&types.IsBoolean != 0:
			return sortBool
		case u.Info()&types.IsInteger != 0:
			return bvSort(int(c.sizes.Sizeof(u)) * 8)
		case u.Info()&types.IsString != 0:
			return sortStr
		case u.Info()&types.IsFloat != 0, u.Info()&types.IsComplex != 0:
			return "Float"
		case u.Kind() == types.UnsafePointer:
			return sortRef
		case u.Kind() == types.UntypedNil:
			return sortRef
		}
	case *types.Pointer:
		return sortRef
	case *types.Slice:
		return sortSl
	case *types.Array:
		return arraySort(bvSort(64), c.sortFor(u.Elem()))
	case *types.Map:
		return sortRef
	case *types.Chan:
		return sortRef
	case *types.Interface:
		return sortIfc
	case *types.Signature:
		return sortFunc
	case *types.Struct:
		return c.structSort(nil, u)
	case *types.Tuple:
		return "Tuple"
	case *types.TypeParam:
		return sortIfc
	}
	panic(fmt.Sprintf("sortFor: unsupported type %v (%T)", t, t))
}

func (c *Ctx) structSort(n *types.Named, st *types.Struct) string {
	key := ""
	if n != nil {
		key = typeKey(n)
	} else {
		key = "anon" + smtIdent(st.String())
	}
	c.mu.Lock()
	if s, ok := c.sortOf[key]; ok {
		c.mu.Unlock()
		return s
	}
	c.mu.Unlock()
	name := "S!" + key
	opaque := n == nil || n.Obj().Pkg() == nil || !c.inRepo(n.Obj().Pkg())
	if n != nil && n.Obj().Pkg() != nil && modelledExternStructs[n.Obj().Pkg().Path()+"."+n.Obj().Name()] {
		opaque = false
	}
	if opaque || st.NumFields() == 0 {
		c.mu.Lock()
		c.sortOf[key] = name
		c.mu.Unlock()
		c.declare(name, fmt.Sprintf("(declare-sort %s 0)", name))
		return name
	}
	// field sorts first (may declare other structs)
	var fs []string
	for i := 0; i < st.NumFields(); i++ {
		f := st.Field(i)
		fs = append(fs, fmt.Sprintf("(%s %s)", fieldAcc(key, f.Name(), i), c.sortFor(f.Type())))
	}
	c.mu.Lock()
	c.sortOf[key] = name
	c.mu.Unlock()
	c.declare(name, fmt.Sprintf("(declare-datatypes ((%s 0)) (((mk!%s %s))))", name, key, strings.Join(fs, " ")))
	return name
}

// structs from outside /repo that are modelled field by field (everything else is an opaque sort)
var modelledExternStructs = map[string]bool{
	"reflect.SliceHeader": true, "reflect.Method": true,
	"debug/gosym.Table": true, "debug/gosym.Sym": true, "debug/gosym.Func": true,
}

func fieldAcc(structKey, field string, idx int) string {
	if field == "_" {
		field = fmt.Sprintf("_%d", idx)
	}
	return "f!" + structKey + "!" + field
}

func fieldHeap(structKey, field string, idx int) string {
	if field == "_" {
		field = fmt.Sprintf("_%d", idx)
	}
	return "F!" + structKey + "!" + field
}

// structOf returns the named struct (or nil) behind t.
func structOf(t types.Type) (*types.Named, *types.Struct) {
	t = types.Unalias(t)
	if n, ok := t.(*types.Named); ok {
		if st, ok := n.Underlying().(*types.Struct); ok {
			return n, st
		}
		return nil, nil
	}
	if st, ok := t.(*types.Struct); ok {
		return nil, st
	}
	return nil, nil
}

// isDatatypeStruct reports whether t is a struct modelled field-by-field.
func (c *Ctx) isDatatypeStruct(t types.Type) bool {
	n, st := structOf(t)
	if st == nil || st.NumFields() == 0 {
		return false
	}
	if n == nil || n.Obj().Pkg() == nil {
		return false
	}
	if modelledExternStructs[n.Obj().Pkg().Path()+"."+n.Obj().Name()] {
		return true
	}
	return c.inRepo(n.Obj().Pkg())
}

func (c *Ctx) heapDecl(name, sort string) string {
	c.mu.Lock()
	if _, ok := c.heapSort[name]; !ok {
		c.heapSort[name] = sort
	}
	c.mu.Unlock()
	c.declConst(name, sort)
	return name
}

func (c *Ctx) heapSortOf(name string) string {
	c.mu.Lock()
	defer c.mu.Unlock()
	return c.heapSort[name]
}

func sortID(s string) string { return smtIdent(s) }

func (c *Ctx) cellHeap(sort string) string {
	return c.heapDecl("C!"+sortID(sort), arraySort(sortRef, sort))
}

func (c *Ctx) elemHeap(sort string) string {
	return c.heapDecl("E!"+sortID(sort), arraySort(sortRef, arraySort(bvSort(64), sort)))
}

func (c *Ctx) mapHeaps(k, v string) (string, string) {
	vh := c.heapDecl("M!"+sortID(k)+"!"+sortID(v), arraySort(sortRef, arraySort(k, v)))
	ph := c.heapDecl("MP!"+sortID(k)+"!"+sortID(v), arraySort(sortRef, arraySort(k, sortBool)))
	return vh, ph
}

func (c *Ctx) typeConst(t types.Type) string {
	name := "ty!" + typeKey(t)
	c.mu.Lock()
	c.typeIDs[name] = t
	c.mu.Unlock()
	c.declConst(name, sortType)
	return name
}

func (c *Ctx) strLit(s string) string {
	c.mu.Lock()
	name, ok := c.strLits[s]
	if !ok {
		name = fmt.Sprintf("str!%d", len(c.strLits))
		c.strLits[s] = name
	}
	c.mu.Unlock()
	c.declConst(name, sortStr)
	c.fact("strlen!"+name, sx("=", sx("str_len", name), bvLitI(int64(len(s)), 64)), name)
	return name
}

// boxFns returns the injection/projection pair between a concrete Go type and Iface.
func (c *Ctx) boxFns(t types.Type) (box, unbox string) {
	k := typeKey(t)
	s := c.sortFor(t)
	box, unbox = "box!"+k, "unbox!"+k
	c.declFun(box, []string{s}, sortIfc)
	c.declFun(unbox, []string{sortIfc}, s)
	tc := c.typeConst(t)
	c.fact("box!"+k, fmt.Sprintf("(forall ((x %s)) (! (and (= (%s (%s x)) x) (= (typeof (%s x)) %s) (not (= (%s x) iface_nil))) :pattern ((%s x))))",
		s, unbox, box, box, tc, box, box))
	c.fact("unbox!"+k, fmt.Sprintf("(forall ((i Iface)) (! (=> (and (not (= i iface_nil)) (= (typeof i) %s)) (= (%s (%s i)) i)) :pattern ((%s i))))",
		tc, box, unbox, unbox))
	return
}

func isUnsigned(t types.Type) bool {
	if t == nil {
		return false
	}
	if b, ok := t.Underlying().(*types.Basic); ok {
		return b.Info()&types.IsUnsigned != 0
	}
	return false
}

func isInteger(t types.Type) bool {
	if t == nil {
		return false
	}
	if b, ok := t.Underlying().(*types.Basic); ok {
		return b.Info()&types.IsInteger != 0
	}
	return false
}

func zeroTerm(c *Ctx, t types.Type) Val {
	s := c.sortFor(t)
	v := Val{S: s, Ty: t}
	switch {
	case s == sortBool:
		v.T = "false"
	case s == sortRef:
		v.T = "nil"
	case s == sortIfc:
		v.T = "iface_nil"
	case s == sortFunc:
		v.T = "func_nil"
	case s == sortSl:
		v.T = "(mk-slice nilarr #x0000000000000000 #x0000000000000000 #x0000000000000000)"
	case s == sortStr:
		v.T = c.strLit("")
	default:
		if n, ok := isBV(s); ok {
			v.T = bvLitI(0, n)
		} else {
			// zero value of a datatype/opaque/array sort: a named constant
			name := "zero!" + sortID(s)
			c.declConst(name, s)
			v.T = name
			if _, st := structOf(t); st != nil && c.isDatatypeStruct(t) {
				// constrain each field to its zero
				n, _ := structOf(t)
				key := typeKey(n)
				var eqs []string
				for i := 0; i < st.NumFields(); i++ {
					fz := zeroTerm(c, st.Field(i).Type())
					eqs = append(eqs, sx("=", sx(fieldAcc(key, st.Field(i).Name(), i), name), fz.T))
				}
				c.fact("zero!"+sortID(s), smtAnd(eqs...))
			}
			if _, vs, ok := arrayParts(s); ok {
				if at, ok2 := t.Underlying().(*types.Array); ok2 {
					ez := zeroTerm(c, at.Elem())
					c.fact("zero!"+sortID(s), fmt.Sprintf("(forall ((i (_ BitVec 64))) (! (= (select %s i) %s) :pattern ((select %s i))))", name, ez.T, name))
					_ = vs
				}
			}
		}
	}
	return v
}

// reflectKindOf gives reflect.Kind's numeric value for a Go type (-1 if unknown).
func reflectKindOf(t types.Type) int {
	switch u := t.Underlying().(type) {
	case *types.Basic:
		switch u.Kind() {
		case types.Bool:
			return 1
		case types.Int:
			return 2
		case types.Int8:
			return 3
		case types.Int16:
			return 4
		case types.Int32:
			return 5
		case types.Int64:
			return 6
		case types.Uint:
			return 7
		case types.Uint8:
			return 8
		case types.Uint16:
			return 9
		case types.Uint32:
			return 10
		case types.Uint64:
			return 11
		case types.Uintptr:
			return 12
		case types.Float32:
			return 13
		case types.Float64:
			return 14
		case types.Complex64:
			return 15
		case types.Complex128:
			return 16
		case types.String:
			return 24
		case types.UnsafePointer:
			return 26
		}
	case *types.Array:
		return 17
	case *types.Chan:
		return 18
	case *types.Signature:
		return 19
	case *types.Interface:
		return 20
	case *types.Map:
		return 21
	case *types.Pointer:
		return 22
	case *types.Slice:
		return 23
	case *types.Struct:
		return 25
	}
	return -1
}

// sliceLines keeps the path lines (declarations, definitions, assumptions) that are connected to
// the goal through shared non-logical symbols (relevancy slicing).  Dropping assumptions only weakens
// the hypotheses, so "unsat" on the slice is a proof of the full obligation; it also keeps axioms that
// belong to unrelated parts of the path (e.g. boxing of logging arguments) out of the query, which is
// what lets the solvers return models.
func (sn *ctxSnap) sliceLines(lines []string, goal string) []string {
	known := map[string]bool{}
	for _, n := range sn.declName {
		known[n] = true
	}
	type ln struct {
		text string
		syms map[string]bool
		def  string // symbol introduced by a declare-const / define-fun
	}
	ls := make([]ln, len(lines))
	for i, l := range lines {
		m := map[string]bool{}
		smtTokens(l, m)
		d := ""
		if strings.HasPrefix(l, "(declare-const ") || strings.HasPrefix(l, "(define-fun ") {
			f := strings.Fields(l)
			if len(f) > 1 {
				d = f[1]
				known[d] = true
			}
		}
		ls[i] = ln{l, m, d}
	}
	// transitive symbol closure of definitions, so that an assumption about a defined name is
	// connected to everything that definition talks about
	deps := map[string]map[string]bool{}
	for i := range ls {
		l := &ls[i]
		full := map[string]bool{}
		for s := range l.syms {
			full[s] = true
			for t := range deps[s] {
				full[t] = true
			}
		}
		if l.def != "" && strings.HasPrefix(l.text, "(define-fun ") {
			deps[l.def] = full
		}
		if l.def == "" {
			l.syms = full
		}
	}
	need := map[string]bool{}
	gm := map[string]bool{}
	smtTokens(goal, gm)
	for s := range gm {
		if known[s] {
			need[s] = true
		}
	}
	in := make([]bool, len(ls))
	for changed := true; changed; {
		changed = false
		for i, l := range ls {
			if in[i] {
				continue
			}
			take := false
			if l.def != "" {
				take = need[l.def]
			} else {
				for s := range l.syms {
					if need[s] {
						take = true
						break
					}
				}
			}
			if take {
				in[i] = true
				changed = true
				for s := range l.syms {
					if known[s] && !need[s] {
						need[s] = true
					}
				}
			}
		}
	}
	var out []string
	for i, l := range ls {
		if in[i] {
			out = append(out, l.text)
		}
	}
	return out
}
