package main

const c09Replay = `package arg

import (
	"reflect"
	"testing"
)

// nil supplied for each nilable result kind must become the typed zero value (no panic).
func TestGovcReplay(t *testing.T) {
	var e error
	types := map[string]reflect.Type{
		"ptr": reflect.TypeOf((*int)(nil)), "interface": reflect.TypeOf(&e).Elem(), "slice": reflect.TypeOf([]int(nil)),
		"map": reflect.TypeOf(map[int]int(nil)), "chan": reflect.TypeOf((chan int)(nil)), "func": reflect.TypeOf((func())(nil)),
	}
	for name, typ := range types {
		func() {
			defer func() {
				if r := recover(); r != nil {
					t.Errorf("toValue(nil, %s) panicked: %v", name, r)
				}
			}()
			v, err := toValue(nil, typ, false)
			if err != nil || v.Type() != typ || !v.IsZero() {
				t.Errorf("toValue(nil, %s) = %v, %v; want the typed zero value", name, v, err)
			}
		}()
	}
}
`

func init() {
	registerProperty(&PropertyConfig{
		ID:      "C09",
		Explain: "kind-case contract on arg.toValue/I2V/V2I over the reflect model: nil -> typed zero for the six nilable kinds, interface boxing keeps the dynamic value, stand-in structs keep the data word, different size rejected",
		Trusted: []string{"reflect model (/verif/spec/reflect.spec)", "arg.cast (unsafe re-typing through hack.Value) is a trusted contract"},
		Replay: func(o *Options, g *groupResult, model map[string]string) (string, string, bool) {
			return "arg", c09Replay, true
		},
	})
}
