package main

func init() {
	registerProperty(&PropertyConfig{
		ID:      "C10",
		Explain: "contracts on goom's lookup glue: lookupSym returns the first symbol whose name is exactly the requested one or nil (loop invariant), Find*ByName add the slide or return (0, error), load errors are sticky",
		Trusted: []string{"debug/elf + debug/gosym parse the executable correctly; gosym.Table.LookupFunc is exact", "the loader applies one slide to all text and one to all data (a single anchor function/variable suffices)"},
	})
}
