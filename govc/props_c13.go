package main

import "strings"

const c13ReturnReplay = `package mocker

import "testing"

//go:noinline
func govcC13Target(i int) int { return i + 1 }

// too few return values (none at all) for a function with one result
func TestGovcReplay(t *testing.T) {
	mk := Create()
	defer mk.Reset()
	rejected := false
	func() {
		defer func() {
			if recover() != nil {
				rejected = true
			}
		}()
		mk.Func(govcC13Target).Return()
	}()
	if !rejected {
		t.Errorf("Return() with no values for a function with one result was accepted at configuration time")
	}
	func() {
		defer func() {
			if r := recover(); r != nil {
				t.Errorf("the rejected configuration left the target patched: calling it panics: %v", r)
			}
		}()
		if got := govcC13Target(1); got != 2 {
			t.Errorf("the rejected configuration left the target mocked: got %d", got)
		}
	}()
}
`

func replayC13(o *Options, g *groupResult, model map[string]string) (string, string, bool) {
	name := g.name
	switch {
	case strings.Contains(name, "too_few_return_values_rejected_up_front"):
		return ".", c13ReturnReplay, true
	case strings.HasPrefix(name, "erro.New") && strings.Contains(name, "cause_chain_walkable"):
		ctor := strings.TrimPrefix(strings.SplitN(name, "#", 2)[0], "erro.")
		call := ctor + `("p", "v")`
		checkCause := false
		switch ctor {
		case "NewIllegalParamCError":
			call = `NewIllegalParamCError("p", "v", cause)`
			checkCause = true
		case "NewIllegalCallError":
			call = `NewIllegalCallError("f", "p", "v")`
		case "NewTraceableErrors":
			call = `NewTraceableErrors("x")`
		case "NewTraceableErrorc":
			call = `NewTraceableErrorc("x", cause)`
			checkCause = true
		case "NewTraceableError":
			call = `NewTraceableError(cause, cause)`
			checkCause = true
		}
		body := "\tcause := NewArgsNotMatchError(nil, 1, 2)\n\t_ = cause\n\te := " + call + "\n" +
			"\tif _, ok := e.(Traceable); !ok {\n\t\tt.Fatalf(\"%T has a Cause method but is not Traceable: erro.Cause/CauseBy cannot walk past it\", e)\n\t}\n"
		if checkCause {
			body += "\tif Cause(e) != cause {\n\t\tt.Fatalf(\"Cause(%T) = %v, want the cause it was built with\", e, Cause(e))\n\t}\n"
		}
		return "erro", "package erro\n\nimport \"testing\"\n\nfunc TestGovcReplay(t *testing.T) {\n" + body + "}\n", true
	case strings.HasPrefix(name, "erro.New") && strings.Contains(name, "typed_as_named"):
		ctor := strings.TrimPrefix(strings.SplitN(name, "#", 2)[0], "erro.")
		want := map[string]string{"NewReturnsNotMatchError": "*ReturnsNotMatch", "NewReturnParamNotFoundError": "*ReturnParamNotFound"}[ctor]
		args := map[string]string{"NewReturnsNotMatchError": "nil, 1, 2", "NewReturnParamNotFoundError": `"f", 1`}[ctor]
		if want == "" {
			return "", "", false
		}
		body := "\te := " + ctor + "(" + args + ")\n\tif _, ok := e.(" + want + "); !ok {\n\t\tt.Fatalf(\"" + ctor + " returned %T, want " + want + "\", e)\n\t}\n"
		return "erro", "package erro\n\nimport \"testing\"\n\nfunc TestGovcReplay(t *testing.T) {\n" + body + "}\n", true
	}
	return "", "", false
}
