package main

// exec_call.go — calls: builtins, contracts (modular), closures (inlined), func values.

import (
	"fmt"
	"go/types"
	"sort"
	"strings"

	"golang.org/x/tools/go/ssa"
)

// calleeInfo describes the static target of a call for contract lookup.
type calleeInfo struct {
	key    string
	sig    *types.Signature
	pkg    *types.Package
	fn     *ssa.Function
	pnames []string // receiver first (if any), then parameters
}

func (ex *Exec) callee(st *State, c *ssa.CallCommon) *calleeInfo {
	if c.IsInvoke() {
		recvT := c.Value.Type()
		key := "(" + types.TypeString(recvT, func(p *types.Package) string { return p.Path() }) + ")." + c.Method.Name()
		sig := c.Method.Type().(*types.Signature)
		ci := &calleeInfo{key: key, sig: sig, pkg: c.Method.Pkg(), pnames: []string{"self"}}
		for i := 0; i < sig.Params().Len(); i++ {
			ci.pnames = append(ci.pnames, sig.Params().At(i).Name())
		}
		return ci
	}
	fn := c.StaticCallee()
	if fn == nil {
		return nil
	}
	ci := &calleeInfo{key: funcKey(fn), sig: fn.Signature, fn: fn}
	if fn.Pkg != nil {
		ci.pkg = fn.Pkg.Pkg
	} else if obj := fn.Object(); obj != nil {
		ci.pkg = obj.Pkg()
	}
	if len(fn.Params) > 0 {
		for _, p := range fn.Params {
			ci.pnames = append(ci.pnames, p.Name())
		}
	} else {
		if fn.Signature.Recv() != nil {
			ci.pnames = append(ci.pnames, fn.Signature.Recv().Name())
		}
		for i := 0; i < fn.Signature.Params().Len(); i++ {
			ci.pnames = append(ci.pnames, fn.Signature.Params().At(i).Name())
		}
	}
	return ci
}

func (ex *Exec) isPurePkg(p *types.Package) bool {
	return p != nil && ex.purePk[p.Path()]
}

func (ex *Exec) freshResult(st *State, prefix string, t types.Type) Val {
	save := st.callResult
	st.callResult = true
	defer func() { st.callResult = save }()
	return ex.freshResult1(st, prefix, t)
}

func (ex *Exec) freshResult1(st *State, prefix string, t types.Type) Val {
	if tup, ok := t.(*types.Tuple); ok {
		if tup.Len() == 0 {
			return Val{Tup: []Val{}}
		}
		if tup.Len() == 1 {
			return ex.freshResult1(st, prefix, tup.At(0).Type())
		}
		var vs []Val
		for i := 0; i < tup.Len(); i++ {
			vs = append(vs, ex.freshResult1(st, fmt.Sprintf("%s.%d", prefix, i), tup.At(i).Type()))
		}
		return Val{Tup: vs}
	}
	s := ex.ctx.sortFor(t)
	v := Val{T: st.freshConst(prefix, s), S: s, Ty: t}
	ex.assumeLoaded(st, v)
	return v
}

func (ex *Exec) havocAll(st *State) {
	// variables captured by the closure under verification are shared only with the enclosing
	// function: a call to any other code leaves them unchanged (stated assumption)
	type saved struct {
		p *Ptr
		v Val
	}
	var keep []saved
	if ex.cur != nil {
		for _, a := range ex.cur.fvAddr {
			func() {
				defer func() { recover() }()
				p := st.ptrOf(a)
				keep = append(keep, saved{p, st.load(p)})
			}()
		}
		if len(keep) > 0 {
			ex.noteAssumption("variables captured by a closure are modified only by the enclosing function's own code: calls to other code leave them unchanged")
		}
	}
	defer func() {
		for _, k := range keep {
			if k.v.T != "" {
				st.assume(sx("=", st.load(k.p).T, k.v.T))
			}
		}
	}()
	ex.ctx.mu.Lock()
	var names []string
	for n := range ex.ctx.heapSort {
		names = append(names, n)
	}
	ex.ctx.mu.Unlock()
	for _, n := range names {
		st.hhavoc(n)
	}
	st.havocEpoch++
}

// execCall handles a call instruction (Call or, at RunDefers time, a deferred call).
// res is the SSA value receiving the result (nil for deferred calls).
func (ex *Exec) execCall(st *State, in ssa.Instruction, c *ssa.CallCommon, res ssa.Value) []*State {
	var args []Val
	for _, a := range c.Args {
		args = append(args, ex.val(st, a))
	}
	var fnv Val
	if !c.IsInvoke() {
		if _, isB := c.Value.(*ssa.Builtin); !isB {
			fnv = ex.val(st, c.Value)
		}
	} else {
		fnv = ex.val(st, c.Value)
	}
	return ex.doCall(st, in, c, fnv, args, res)
}

func (ex *Exec) bindResult(st *State, res ssa.Value, v Val) {
	if res == nil {
		return
	}
	if v.Tup != nil {
		if len(v.Tup) == 1 {
			v = v.Tup[0]
		} else {
			st.fr.vals[res] = v
			return
		}
	}
	if v.T == "" && v.P == nil && v.Tup == nil {
		st.fr.vals[res] = Val{Tup: []Val{}}
		return
	}
	v.Ty = res.Type()
	st.fr.vals[res] = v
}

func (ex *Exec) doCall(st *State, in ssa.Instruction, c *ssa.CallCommon, fnv Val, args []Val, res ssa.Value) []*State {
	site := st.fr.ord[in]
	if b, ok := c.Value.(*ssa.Builtin); ok && !c.IsInvoke() {
		return ex.execBuiltin(st, in, b, c, args, res)
	}
	if c.IsInvoke() {
		ex.oblige(st, in, "safe", "nil_invoke", smtNot(sx("=", fnv.T, "iface_nil")), "interface value != nil")
		args = append([]Val{fnv}, args...)
	}
	ci := ex.callee(st, c)
	// closure made in this function: inline
	if fnv.Clo != nil && !c.IsInvoke() {
		return ex.inlineClosure(st, in, fnv.Clo, args, res)
	}
	if ci != nil {
		if con, ok := ex.db.Contracts[ci.key]; ok {
			con.Used = true
			if c.IsInvoke() && con.Dispatch {
				return ex.dispatchInvoke(st, in, site, c, con, ci, args, res)
			}
			return ex.applyContract(st, in, site, con, ci, args, res)
		}
		if ci.fn != nil && ci.fn.Parent() != nil && ci.fn.Blocks != nil && len(ci.fn.FreeVars) == 0 {
			// anonymous function without captures called directly
			return ex.inlineClosure(st, in, &Closure{Fn: ci.fn}, args, res)
		}
		if ex.isPurePkg(ci.pkg) || ex.purePk[ci.key] {
			ex.noteAssumption("calls into " + pkgOrKey(ci) + " are treated as pure, total and non-panicking (logging/formatting)")
			var rt types.Type = ci.sig.Results()
			ex.bindResult(st, res, ex.freshResult(st, "r."+callName(c), rt))
			return []*State{st}
		}
		// uncontracted helper inside /repo without loops: executed as part of the caller (a correct
		// extract-function refactoring must not raise an alarm, an incorrect helper must fail the caller's clauses)
		if ci.fn != nil && ci.fn.Blocks != nil && ci.pkg != nil && strings.HasPrefix(ci.pkg.Path(), repoMod) && len(findLoops(ci.fn)) == 0 && ci.fn.Recover == nil {
			depth := 0
			for f := st.fr; f != nil; f = f.parent {
				depth++
				if f.fn == ci.fn {
					depth = 99 // recursion
				}
			}
			if depth <= 4 {
				ex.noteAssumption("uncontracted helper " + shortFuncName(ci.key) + " is inlined into its caller")
				return ex.inlineClosure(st, in, &Closure{Fn: ci.fn}, args, res)
			}
		}
		// uncontracted: havoc everything
		ex.noteAssumption("uncontracted call to " + shortFuncName(ci.key) + ": result unconstrained, whole heap havocked, assumed not to panic")
		st.notes = append(st.notes, "uncontracted call "+shortFuncName(ci.key))
		ex.havocAll(st)
		ex.bindResult(st, res, ex.freshResult(st, "r."+callName(c), ci.sig.Results()))
		return []*State{st}
	}
	// call through a func value
	sig := c.Value.Type().Underlying().(*types.Signature)
	ex.oblige(st, in, "safe", "nil_func", smtNot(sx("=", fnv.T, "func_nil")), "func value != nil")
	ex.noteAssumption("call through a func value: result is apply(f, args, epoch), whole heap havocked; may panic")
	ex.havocAll(st)
	// panic path
	out := []*State{}
	if ex.cur != nil && ex.cur.con != nil && ex.cur.con.FuncValuePanics {
		ps := st.clone()
		pv := ex.freshResult(ps, "panicval", types.NewInterfaceType(nil, nil))
		ps.assume(sx("=", pv.T, sx(ex.ctx.declFun("panic_of!"+sigID(sig), append([]string{sortFunc}, sortsOf(args)...), sortIfc), append([]string{fnv.T}, termsOf(args)...)...)))
		ps.assume(sx(ex.ctx.declFun("panics!"+sigID(sig), append([]string{sortFunc}, sortsOf(args)...), sortBool), append([]string{fnv.T}, termsOf(args)...)...))
		ps.panicV = &pv
		out = append(out, ps)
		st.assume(smtNot(sx("panics!"+sigID(sig), append([]string{fnv.T}, termsOf(args)...)...)))
	}
	rt := sig.Results()
	var rv Val
	if rt.Len() == 1 {
		rs := ex.ctx.sortFor(rt.At(0).Type())
		f := ex.ctx.declFun("apply!"+sigID(sig), append([]string{sortFunc}, sortsOf(args)...), rs)
		rv = Val{T: sx(f, append([]string{fnv.T}, termsOf(args)...)...), S: rs, Ty: rt.At(0).Type()}
		rv.T = st.define("apply", rs, rv.T)
		ex.assumeLoaded(st, rv)
	} else {
		rv = ex.freshResult(st, "r.funcvalue", rt)
	}
	ex.bindResult(st, res, rv)
	return append(out, st)
}

// dispatchInvoke handles a call through an interface whose method contract says `dispatch`: one path per
// implementation in /repo that has its own contract (dynamic type assumed, concrete contract applied to the
// unboxed receiver) plus a residual path for every other dynamic type, which uses the interface's contract.
func (ex *Exec) dispatchInvoke(st *State, in ssa.Instruction, site string, c *ssa.CallCommon, icon *Contract, ici *calleeInfo, args []Val, res ssa.Value) []*State {
	it, _ := c.Value.Type().Underlying().(*types.Interface)
	var keys []string
	for k := range ex.funcs {
		keys = append(keys, k)
	}
	sort.Strings(keys)
	var out []*State
	var others []string
	recv := args[0]
	for _, k := range keys {
		fn := ex.funcs[k]
		if fn.Name() != c.Method.Name() || fn.Signature.Recv() == nil || fn.Synthetic != "" {
			continue
		}
		rt := fn.Signature.Recv().Type()
		if it == nil || !types.Implements(rt, it) {
			continue
		}
		con, ok := ex.db.Contracts[k]
		if !ok {
			continue
		}
		con.Used = true
		tc := ex.ctx.typeConst(rt)
		isT := sx("=", sx("typeof", recv.T), tc)
		others = append(others, smtNot(isT))
		ps := st.clone()
		ps.assume(isT)
		ps.notes = append(ps.notes, "dynamic type "+types.TypeString(rt, nil))
		_, unbox := ex.ctx.boxFns(rt)
		rv := Val{T: sx(unbox, recv.T), S: ex.ctx.sortFor(rt), Ty: rt}
		ex.assumeLoaded(ps, rv)
		cargs := append([]Val{rv}, args[1:]...)
		cci := &calleeInfo{key: k, sig: fn.Signature, fn: fn}
		if fn.Pkg != nil {
			cci.pkg = fn.Pkg.Pkg
		}
		for _, p := range fn.Params {
			cci.pnames = append(cci.pnames, p.Name())
		}
		out = append(out, ex.applyContract(ps, in, site, con, cci, cargs, res)...)
	}
	st.assume(smtAnd(others...))
	if len(others) > 0 {
		st.notes = append(st.notes, "other dynamic type")
	}
	return append(out, ex.applyContract(st, in, site, icon, ici, args, res)...)
}

func pkgOrKey(ci *calleeInfo) string {
	if ci.pkg != nil {
		return "package " + ci.pkg.Path()
	}
	return ci.key
}

func sigID(sig *types.Signature) string { return smtIdent(sig.String()) }

func sortsOf(vs []Val) []string {
	var out []string
	for _, v := range vs {
		out = append(out, v.S)
	}
	return out
}

func termsOf(vs []Val) []string {
	var out []string
	for _, v := range vs {
		if v.T == "" {
			panic(unsupported("interior pointer passed to a func value"))
		}
		out = append(out, v.T)
	}
	return out
}

// ---------------------------------------------------------------------------
// contracts at call sites

func (ex *Exec) contractEnv(st *State, con *Contract, ci *calleeInfo, args []Val) *SpecEnv {
	env := &SpecEnv{st: st, vars: map[string]Val{}, pkg: ci.pkg}
	if con.Pkg != "" {
		env.pkg = ex.pkgByPath(con.Pkg)
	}
	for i, a := range args {
		if i < len(ci.pnames) && ci.pnames[i] != "" && ci.pnames[i] != "_" {
			env.vars[ci.pnames[i]] = a
		}
		env.vars[fmt.Sprintf("arg%d", i)] = a
	}
	if ci.sig != nil && ci.sig.Recv() != nil && len(args) > 0 {
		env.vars["self"] = args[0]
	}
	return env
}

func (ex *Exec) bindResults(env *SpecEnv, sig *types.Signature, r Val) {
	rs := sig.Results()
	var vals []Val
	if r.Tup != nil {
		vals = r.Tup
	} else if rs.Len() == 1 {
		vals = []Val{r}
	}
	for i := 0; i < rs.Len() && i < len(vals); i++ {
		if n := rs.At(i).Name(); n != "" && n != "_" {
			env.vars[n] = vals[i]
		}
		env.vars[fmt.Sprintf("result%d", i)] = vals[i]
	}
	if len(vals) >= 1 {
		env.vars["result"] = vals[0]
	}
}

func (ex *Exec) applyContract(st *State, in ssa.Instruction, site string, con *Contract, ci *calleeInfo, args []Val, res ssa.Value) []*State {
	for i := range args {
		if args[i].Ty == nil && i < len(ci.pnames) {
			// keep as is
		}
	}
	// static types of the arguments as the callee sees them
	ps := paramTypes(ci.sig)
	for i := range args {
		if i < len(ps) && args[i].Tup == nil {
			args[i].Ty = ps[i]
		}
	}
	env := ex.contractEnv(st, con, ci, args)
	short := shortFuncName(con.Key)
	ex.callSiteObligations(st, in, site, lastName(con.Key), args)
	for _, cl := range con.clauses("requires") {
		g := ex.evalClause(env, cl, con)
		ex.obligeNamed(st, in, "pre", short+"."+cl.Label+"@"+site, g, cl.Src, ex.propsOf(cl, con))
	}
	for _, cl := range con.clauses("assume") {
		st.assume(ex.evalClause(env, cl, con))
		ex.noteAssumption("assumed, not checked at call sites: " + short + " " + cl.Label + ": " + cl.Src)
	}
	var out []*State
	// exceptional exit of the callee
	pcl := con.clauses("panics_only_if")
	if len(pcl) > 0 || con.MayPanic {
		ps := st.clone()
		penv := ex.contractEnv(ps, con, ci, args)
		var conds []string
		for _, cl := range pcl {
			conds = append(conds, ex.evalClause(penv, cl, con))
		}
		if len(conds) > 0 {
			ps.assume(smtOr(conds...))
		}
		pre := ps.heapCopy()
		ex.havocAssigns(ps, con, penv)
		penv.old = pre
		for _, cl := range con.clauses("ensures_on_panic") {
			ps.assume(ex.evalClause(penv, cl, con))
		}
		pv := ex.freshResult(ps, "panicval", types.NewInterfaceType(nil, nil))
		ps.assume(smtNot(sx("=", pv.T, "iface_nil")))
		ps.panicV = &pv
		ps.notes = append(ps.notes, "panic in callee "+short)
		out = append(out, ps)
	}
	pre := st.heapCopy()
	ex.havocAssigns(st, con, env)
	if con.Fresh {
		st.noLoadAssume = true
	}
	r := ex.freshResult(st, "r."+lastName(con.Key), ci.sig.Results())
	st.noLoadAssume = false
	env.old = pre
	ex.bindResults(env, ci.sig, r)
	if con.Fresh {
		rv := r
		if r.Tup != nil && len(r.Tup) > 0 {
			rv = r.Tup[0]
		}
		t := rv.T
		if rv.S == sortSl {
			t = slArr(rv.T)
		}
		if rv.S == sortRef || rv.S == sortSl {
			var ds []string
			ds = append(ds, smtNot(sx("alive0", t)), smtNot(sx("=", t, "nil")), smtNot(sx("=", t, "textref")), smtNot(sx("=", t, "nilarr")))
			for _, o := range st.fresh {
				ds = append(ds, smtNot(sx("=", t, o)))
			}
			if rv.S == sortSl {
				ds = append(ds, sx("bvsle", bv64(0), slLen(rv.T)), sx("bvsle", slLen(rv.T), slCap(rv.T)), sx("bvult", slCap(rv.T), bv64(1<<48)))
			}
			st.assume(smtAnd(ds...))
			st.fresh = append(st.fresh, t)
		}
		if r.Tup != nil {
			for _, x := range r.Tup[1:] {
				ex.assumeLoaded(st, x)
			}
		}
	}
	var declaredFresh []string
	env.callFresh = &declaredFresh
	for _, cl := range con.clauses("ensures") {
		st.assume(ex.evalClause(env, cl, con))
	}
	env.callFresh = nil
	for _, t := range declaredFresh {
		dup := false
		for _, f := range st.fresh {
			if f == t {
				dup = true
			}
		}
		if !dup {
			st.fresh = append(st.fresh, t)
		}
	}
	ex.bindResult(st, res, r)
	// remember what the (last) call to this callee returned on this path: returned(f, i) in ensures_local
	nr := map[string]Val{}
	for k, v := range st.callRets {
		nr[k] = v
	}
	nr[lastName(con.Key)] = r
	st.callRets = nr
	if deadcodeProbe && ex.cur != nil {
		k := ex.cur.short + "@" + site
		if probeCount[k] < 2000 {
			probeCount[k]++
			o := ex.newObl(st, "vacuity", "after_call_"+site, "false", "code after this call is reachable", ex.cur.con.Props)
			o.Canary = true
			o.Probe = true
		}
	}
	return append(out, st)
}

var deadcodeProbe = false
var probeCount = map[string]int{}

func lastName(key string) string {
	if i := strings.LastIndex(key, "."); i >= 0 {
		return key[i+1:]
	}
	return key
}

func paramTypes(sig *types.Signature) []types.Type {
	var ts []types.Type
	if sig.Recv() != nil {
		ts = append(ts, sig.Recv().Type())
	}
	for i := 0; i < sig.Params().Len(); i++ {
		ts = append(ts, sig.Params().At(i).Type())
	}
	return ts
}

func (st *State) heapCopy() map[string]string {
	m := make(map[string]string, len(st.heap))
	for k, v := range st.heap {
		m[k] = v
	}
	return m
}

func (ex *Exec) propsOf(cl *Clause, con *Contract) []string {
	if len(cl.Props) > 0 {
		return cl.Props
	}
	return con.Props
}

// evalClause evaluates a contract clause; evaluation errors are contract bugs
// and abort the function with an issue.
func (ex *Exec) evalClause(env *SpecEnv, cl *Clause, con *Contract) (t string) {
	defer func() {
		if r := recover(); r != nil {
			if se, ok := r.(specErr); ok {
				panic(unsupported(fmt.Sprintf("contract %s clause %s: %s", shortFuncName(con.Key), cl.Label, se.msg)))
			}
			panic(r)
		}
	}()
	return env.evalBool(cl.Expr)
}

// location of an assigns item
type loc struct {
	heap   string
	ref    string // "" = whole heap variable
	lo, hi string // element range (for E! arrays); "" = whole inner array / scalar
	key    string // map / ghost-array key
	isMap  bool
	upto   int
}

func (ex *Exec) assignLocs(env *SpecEnv, con *Contract) (locs []loc) {
	defer func() {
		if r := recover(); r != nil {
			if se, ok := r.(specErr); ok {
				panic(unsupported(fmt.Sprintf("contract %s assigns: %s", shortFuncName(con.Key), se.msg)))
			}
			panic(r)
		}
	}()
	c := ex.ctx
	for _, it := range con.Assigns {
		n := it.Expr
		switch n.Kind {
		case "sel":
			// package-qualified global variable
			if n.Args[0].Kind == "ident" {
				if _, isVar := env.vars[n.Args[0].Name]; !isVar {
					if pk := ex.pkgByName(n.Args[0].Name); pk != nil {
						if obj, ok := pk.Scope().Lookup(n.Name).(*types.Var); ok {
							locs = append(locs, loc{heap: c.heapDecl(globalHeapName(obj), c.sortFor(obj.Type()))})
							break
						}
						specFail("assigns %s: no such package variable", it.Src)
					}
				}
			}
			x := env.eval(n.Args[0])
			t := derefType(x.Ty)
			nm, s := structOf(t)
			if s == nil || nm == nil {
				specFail("assigns %s: not a struct field", it.Src)
			}
			found := false
			for i := 0; i < s.NumFields(); i++ {
				if s.Field(i).Name() == n.Name {
					h := c.heapDecl(fieldHeap(typeKey(nm), n.Name, i), arraySort(sortRef, c.sortFor(s.Field(i).Type())))
					locs = append(locs, loc{heap: h, ref: x.T})
					found = true
				}
			}
			if !found {
				// promoted field through an embedded pointer
				v := env.field(x, n.Name) // validates
				_ = v
				specFail("assigns %s: name the embedded struct explicitly", it.Src)
			}
		case "ident":
			if n.Name == "textmem" {
				locs = append(locs, loc{heap: c.elemHeap(bvSort(8)), ref: "textref"})
				break
			}
			if g, ok := ex.db.Ghosts[n.Name]; ok {
				s, _ := env.ghostSort(g)
				locs = append(locs, loc{heap: c.heapDecl("GH!"+g.Name, s)})
				break
			}
			if v, ok := env.vars[n.Name]; ok && v.S == sortSl {
				es := c.sortFor(v.Ty.Underlying().(*types.Slice).Elem())
				locs = append(locs, loc{heap: c.elemHeap(es), ref: slArr(v.T)})
				break
			}
			if env.pkg != nil {
				if obj, ok := env.pkg.Scope().Lookup(n.Name).(*types.Var); ok {
					locs = append(locs, loc{heap: c.heapDecl(globalHeapName(obj), c.sortFor(obj.Type()))})
					break
				}
			}
			specFail("assigns %s: unknown location", it.Src)
		case "un":
			if n.Op != "*" {
				specFail("assigns %s: unsupported", it.Src)
			}
			x := env.eval(n.Args[0])
			p := env.st.ptrOf(x)
			switch p.Kind {
			case pGlobal:
				locs = append(locs, loc{heap: p.Heap})
			case pField:
				locs = append(locs, loc{heap: p.Heap, ref: p.Base})
			case pElem:
				locs = append(locs, loc{heap: p.Heap, ref: p.Base, lo: p.Idx, hi: sx("bvadd", p.Idx, bv64(1))})
			case pObj:
				if c.isDatatypeStruct(p.Elem) {
					nm, s := structOf(p.Elem)
					for i := 0; i < s.NumFields(); i++ {
						h := c.heapDecl(fieldHeap(typeKey(nm), s.Field(i).Name(), i), arraySort(sortRef, c.sortFor(s.Field(i).Type())))
						locs = append(locs, loc{heap: h, ref: p.Base})
					}
				} else {
					locs = append(locs, loc{heap: c.cellHeap(c.sortFor(p.Elem)), ref: p.Base})
				}
			default:
				specFail("assigns %s: unsupported pointer", it.Src)
			}
		case "index", "slice":
			base := n.Args[0]
			if base.Kind == "ident" {
				if g, ok := ex.db.Ghosts[base.Name]; ok && n.Kind == "index" {
					s, _ := env.ghostSort(g)
					ks, _, _ := arrayParts(s)
					k := env.coerce(env.eval(n.Args[1]), ks, nil)
					locs = append(locs, loc{heap: c.heapDecl("GH!"+g.Name, s), key: k.T})
					break
				}
			}
			var arrRef, off, ln string
			var es string
			if base.Kind == "ident" && base.Name == "textmem" {
				arrRef, off, es = "textref", bv64(0), bvSort(8)
				ln = ""
			} else {
				x := env.eval(base)
				if x.S == sortSl {
					arrRef, off, ln = slArr(x.T), slOff(x.T), slLen(x.T)
					es = c.sortFor(x.Ty.Underlying().(*types.Slice).Elem())
				} else if mt, ok := x.Ty.Underlying().(*types.Map); ok && n.Kind == "index" {
					ks, vs := c.sortFor(mt.Key()), c.sortFor(mt.Elem())
					vh, ph := c.mapHeaps(ks, vs)
					k := env.coerce(env.eval(n.Args[1]), ks, mt.Key())
					locs = append(locs, loc{heap: vh, ref: x.T, key: k.T, isMap: true}, loc{heap: ph, ref: x.T, key: k.T, isMap: true})
					break
				} else {
					specFail("assigns %s: unsupported base", it.Src)
				}
			}
			h := c.elemHeap(es)
			if n.Kind == "index" {
				i := env.coerce(env.eval(n.Args[1]), bvSort(64), types.Typ[types.Int])
				lo := sx("bvadd", off, i.T)
				locs = append(locs, loc{heap: h, ref: arrRef, lo: lo, hi: sx("bvadd", lo, bv64(1))})
			} else {
				lo, hi := off, ""
				if n.Args[1] != nil {
					lo = sx("bvadd", off, env.coerce(env.eval(n.Args[1]), bvSort(64), types.Typ[types.Int]).T)
				}
				if n.Args[2] != nil {
					hi = sx("bvadd", off, env.coerce(env.eval(n.Args[2]), bvSort(64), types.Typ[types.Int]).T)
				} else if ln != "" {
					hi = sx("bvadd", off, ln)
				}
				if hi == "" {
					locs = append(locs, loc{heap: h, ref: arrRef})
				} else {
					locs = append(locs, loc{heap: h, ref: arrRef, lo: lo, hi: hi, upto: it.Upto})
				}
			}
		case "call":
			if n.Name == "mapof" {
				x := env.eval(n.Args[0])
				mt := x.Ty.Underlying().(*types.Map)
				vh, ph := c.mapHeaps(c.sortFor(mt.Key()), c.sortFor(mt.Elem()))
				locs = append(locs, loc{heap: vh, ref: x.T}, loc{heap: ph, ref: x.T})
				break
			}
			if n.Name == "anyfield" && len(n.Args) == 2 {
				ty := ex.resolveType(n.Args[0].String(), env.pkg)
				nm, st := structOf(ty)
				found := false
				if st != nil && nm != nil {
					for i := 0; i < st.NumFields(); i++ {
						if st.Field(i).Name() == n.Args[1].String() {
							locs = append(locs, loc{heap: c.heapDecl(fieldHeap(typeKey(nm), st.Field(i).Name(), i), arraySort(sortRef, c.sortFor(st.Field(i).Type())))})
							found = true
						}
					}
				}
				if !found {
					specFail("assigns %s: no such field", it.Src)
				}
				break
			}
			specFail("assigns %s: unsupported", it.Src)
		default:
			specFail("assigns %s: unsupported", it.Src)
		}
	}
	return locs
}

// havocAssigns forgets exactly the locations a callee may write.
func (ex *Exec) havocAssigns(st *State, con *Contract, env *SpecEnv) {
	if !con.HasAssign || con.AssignsEv {
		if !con.HasAssign {
			ex.noteAssumption("contract of " + shortFuncName(con.Key) + " has no assigns clause: callers havoc the whole heap")
		}
		ex.havocAll(st)
		return
	}
	locs := ex.assignLocs(env, con)
	for _, l := range locs {
		cur := st.hget(l.heap)
		hs := ex.ctx.heapSortOf(l.heap)
		switch {
		case l.ref == "" && l.key == "":
			st.hhavoc(l.heap)
		case l.ref == "" && l.key != "": // ghost array element
			_, vs, _ := arrayParts(hs)
			st.hset(l.heap, sx("store", cur, l.key, st.freshConst("hv", vs)))
		case l.isMap:
			_, inner, _ := arrayParts(hs)
			_, vs, _ := arrayParts(inner)
			st.hset(l.heap, sx("store", cur, l.ref, sx("store", sx("select", cur, l.ref), l.key, st.freshConst("hv", vs))))
		case l.lo == "":
			_, vs, _ := arrayParts(hs)
			st.hset(l.heap, sx("store", cur, l.ref, st.freshConst("hv", vs)))
		case l.upto > 0:
			// quantifier-free: at most l.upto elements starting at lo
			_, inner, _ := arrayParts(hs)
			_, es, _ := arrayParts(inner)
			arr := sx("select", cur, l.ref)
			for k := 0; k < l.upto; k++ {
				idx := st.define("hvi", bvSort(64), sx("bvadd", l.lo, bv64(int64(k))))
				fv := st.freshConst("hvb", es)
				arr = sx("store", arr, idx, smtIte(sx("bvult", idx, l.hi), fv, sx("select", arr, idx)))
			}
			st.assume(sx("bvule", sx("bvsub", l.hi, l.lo), bv64(int64(l.upto))))
			st.hset(l.heap, sx("store", cur, l.ref, arr))
		default:
			_, inner, _ := arrayParts(hs)
			na := st.freshConst("hv", inner)
			j := fmt.Sprintf("q!j!%d", ex.counter.Add(1))
			st.assume(fmt.Sprintf("(forall ((%s (_ BitVec 64))) (! (=> (not (and (bvule %s %s) (bvult %s %s))) (= (select %s %s) (select (select %s %s) %s))) :pattern ((select %s %s))))",
				j, l.lo, j, j, l.hi, na, j, cur, l.ref, j, na, j))
			st.hset(l.heap, sx("store", cur, l.ref, na))
		}
	}
}

// callSiteObligations emits the caller's own obligations attached to its calls of a given callee
// (clause kind call_requires): the expression sees the caller's variables and arg0..argN.
func (ex *Exec) callSiteObligations(st *State, in ssa.Instruction, site, calleeName string, args []Val) {
	if ex.cur == nil || ex.cur.con == nil || st.fr == nil || !st.fr.top {
		return
	}
	con := ex.cur.con
	for _, cl := range con.clauses("call_requires") {
		if cl.Callee != calleeName {
			continue
		}
		env := ex.funcEnv(st)
		for k, nb := range st.fr.names {
			if nb.isAddr {
				env.addr = ensureAddrMap(env.addr)
				env.addr[k] = nb.v
			} else if nb.v.T != "" {
				env.vars[k] = nb.v
			}
		}
		for i, a := range args {
			env.vars[fmt.Sprintf("arg%d", i)] = a
		}
		env.locals = map[string]Val{} // returned(f, i) / called(f): results of earlier calls on this path
		g := ex.evalClause(env, cl, con)
		ex.obligeNamed(st, in, "callsite", cl.Label+"@"+site, g, cl.Src, ex.propsOf(cl, con))
	}
}
