package main

import (
	"fmt"
	"os"
	"strings"
)

// cmdSSA prints the SSA of functions whose key contains the given substrings (debug aid).
func cmdSSA(args []string) int {
	arch := envOr("GOVC_ARCH", "amd64")
	ex, err := loadProgram(envOr("GOVC_REPO", "/repo"), arch)
	if err != nil {
		fmt.Fprintln(os.Stderr, err)
		return 2
	}
	for _, k := range sortedKeys(ex.funcs) {
		for _, a := range args {
			if strings.Contains(k, a) {
				ex.funcs[k].WriteTo(os.Stdout)
			}
		}
	}
	return 0
}
