package main

import (
	"fmt"
	"os"
	"path/filepath"
	"regexp"
	"strings"
)

// BOUNDED stand-in for the one function on C14's path that is not under a verified contract: bytecode.GetFuncSize
// (its scan loop has no bound the contract language could state: it stops where memory says so).  The refusal of
// too-short targets (genJumpData, proved) relies on the reported extent never reaching past the first byte of the
// next function.  The harness lays out synthetic functions in anonymous memory - every body length 1..14, every
// int3 padding length 1..15, every alignment of the entry modulo 16, the neighbour directly after the padding - and
// runs the real GetFuncSize on each (in-package test injected with -overlay; the repository is not written).
const funcSizeHarness = `package bytecode

import (
	"fmt"
	"os"
	"syscall"
	"testing"
	"unsafe"
)

func TestGovcReplay(t *testing.T) {
	const slot = 64
	n := 14 * 15 * 16
	mem, err := syscall.Mmap(-1, 0, (n+2)*slot, syscall.PROT_READ|syscall.PROT_WRITE, syscall.MAP_ANON|syscall.MAP_PRIVATE)
	if err != nil {
		t.Skip("mmap: ", err)
	}
	defer syscall.Munmap(mem)
	for i := range mem {
		mem[i] = 0xcc
	}
	base := uintptr(unsafe.Pointer(&mem[0]))
	base = (base + 15) &^ 15
	off0 := int(base - uintptr(unsafe.Pointer(&mem[0])))
	evals, bad := 0, 0
	report := ""
	i := 0
	for L := 1; L <= 14; L++ {
		for P := 1; P <= 15; P++ {
			for a := 0; a < 16; a++ {
				o := off0 + i*slot + a
				i++
				b := mem[o:]
				k := 0
				for ; k+5 <= L-1; k += 5 {
					copy(b[k:], []byte{0xb8, 0x01, 0x02, 0x03, 0x04}) // mov eax, imm32
				}
				for ; k < L-1; k++ {
					b[k] = 0x90 // nop
				}
				b[L-1] = 0xc3 // ret
				for j := 0; j < P; j++ {
					b[L+j] = 0xcc
				}
				copy(b[L+P:], []byte{0xb8, 0x02, 0x00, 0x00, 0x00, 0xc3}) // the neighbour
				start := uintptr(unsafe.Pointer(&mem[o]))
				got, err := GetFuncSize(64, start, false)
				evals++
				if err != nil || got < L || got > L+P {
					bad++
					if bad <= 3 {
						report += fmt.Sprintf("FUNCSIZE-VIOLATION body=%d padding=%d entry_mod_16=%d neighbour_at=+%d reported_extent=%d err=%v\n", L, P, int(start&15), L+P, got, err)
					}
				}
			}
		}
	}
	report += fmt.Sprintf("FUNCSIZE-EVALUATIONS %d bad=%d\n", evals, bad)
	os.WriteFile("@OUT@", []byte(report), 0o644)
	if bad > 0 {
		t.Fatalf("%d of %d layouts: reported extent reaches past the next function or stops inside the function's own code", bad, evals)
	}
}
`

func runFuncSizeAux(o *Options, scratch string) *AuxResult {
	res := &AuxResult{Coverage: map[string]interface{}{}}
	outFile := filepath.Join(scratch, "funcsize.out")
	os.Remove(outFile)
	harness := strings.ReplaceAll(funcSizeHarness, "@OUT@", outFile)
	testOut, failed := runReplay(o, "internal/bytecode", harness)
	out := testOut
	if data, err := os.ReadFile(outFile); err == nil {
		out = string(data) + testOut
	}
	m := regexp.MustCompile(`FUNCSIZE-EVALUATIONS (\d+) bad=(\d+)`).FindStringSubmatch(out)
	if m == nil {
		res.Lines = append(res.Lines, "NOTE bounded GetFuncSize harness did not run (does not compile against the current tree, or no anonymous memory): "+truncate(out, 400))
		return res
	}
	var evals, bad int
	fmt.Sscan(m[1], &evals)
	fmt.Sscan(m[2], &bad)
	res.Coverage["bounded_getfuncsize"] = map[string]interface{}{
		"label":       "BOUNDED stand-in for the trusted bytecode.GetFuncSize (real function run on synthetic layouts); not a proof, not counted in obligations",
		"bound":       "body length 1..14 x int3 padding 1..15 x entry alignment 0..15 (mod 16), neighbour directly after the padding, amd64",
		"oracle":      "body <= reported extent <= distance to the neighbour's first byte",
		"evaluations": evals, "violations": bad,
	}
	res.Coverage["evaluations_bounded"] = evals
	if failed || bad > 0 {
		dirR := filepath.Join(o.Out, "replays", o.Property)
		os.MkdirAll(dirR, 0o755)
		path := filepath.Join(dirR, "bounded_getfuncsize.json")
		var first string
		for _, l := range strings.Split(out, "\n") {
			if strings.HasPrefix(l, "FUNCSIZE-VIOLATION") {
				first = l
				break
			}
		}
		data := fmt.Sprintf("{\n \"property\": %q,\n \"kind\": \"bounded GetFuncSize layouts\",\n \"obligation\": \"bounded:getfuncsize\",\n \"replay_pkg\": \"internal/bytecode\",\n \"reproduced\": true,\n \"replay_output\": %q,\n \"replay_test\": %q\n}\n", o.Property, truncate(out, 3000), funcSizeHarness)
		os.WriteFile(path, []byte(data), 0o644)
		res.Violations = 1
		res.Lines = append(res.Lines, fmt.Sprintf("VIOLATION property=%s replay=%s obligation=bounded:getfuncsize %s", o.Property, path, first))
	}
	res.Assume = append(res.Assume, "bounded stand-in getfuncsize: synthetic layouts only (bound as reported); real linker output is not enumerated")
	return res
}
