package main

import (
	"fmt"
	"strings"
)

func hexOf(model map[string]string, name string) string {
	if v, ok := bvValue(model[name]); ok {
		return "0x" + v.Text(16)
	}
	return "0"
}

const x86Twin = `
// govcX86Target is an independent interpreter of the two jump forms goom emits:
// E9 rel32 (relative to the next instruction) and [90] 48 BA imm64 FF 22.
func govcX86Target(at uintptr, b []byte) (uintptr, string) {
	if len(b) > 0 && b[0] == 0x90 {
		at, b = at+1, b[1:]
	}
	if len(b) == 5 && b[0] == 0xE9 {
		d := int32(uint32(b[1]) | uint32(b[2])<<8 | uint32(b[3])<<16 | uint32(b[4])<<24)
		return at + 5 + uintptr(int64(d)), "rel32"
	}
	if len(b) == 12 && b[0] == 0x48 && b[1] == 0xBA && b[10] == 0xFF && b[11] == 0x22 {
		var imm uint64
		for i := 0; i < 8; i++ {
			imm |= uint64(b[2+i]) << (8 * uint(i))
		}
		return uintptr(imm), "movabs rdx; jmp [rdx]"
	}
	return 0, "unrecognised"
}
`

func replayC15(o *Options, g *groupResult, model map[string]string) (string, string, bool) {
	if g.witness == nil {
		return "", "", false // no model: nothing to replay
	}
	fn := g.witness.Func
	var body, pkg, pkgDir string
	switch {
	case strings.HasSuffix(fn, "patch.relative"), strings.HasSuffix(fn, "patch.jmpToOriginFunctionValue"):
		pkg, pkgDir = "patch", "internal/patch"
		body = fmt.Sprintf(`	from, to := uintptr(%s), uintptr(%s)
	v := jmpToOriginFunctionValue(from, to)
	got, form := govcX86Target(from, v)
	if got != to {
		t.Fatalf("jmpToOriginFunctionValue(%%#x, %%#x) emitted %% x (%%s): control goes to %%#x, want %%#x", from, to, v, form, got, to)
	}`, hexOf(model, "from"), hexOf(model, "to"))
	case strings.HasSuffix(fn, "patch.jmpToFunctionValue"):
		pkg, pkgDir = "patch", "internal/patch"
		body = fmt.Sprintf(`	to := uintptr(%s)
	v := jmpToFunctionValue(0, to)
	got, form := govcX86Target(0, v)
	if len(v) != 13 || v[0] != 0x90 || form != "movabs rdx; jmp [rdx]" || got != to {
		t.Fatalf("jmpToFunctionValue(_, %%#x) emitted %% x (%%s): RDX=%%#x", to, v, form, got)
	}`, hexOf(model, "to"))
	case strings.HasSuffix(fn, "iface.jmpWithRdx"):
		pkg, pkgDir = "iface", "internal/iface"
		body = fmt.Sprintf(`	dx := uintptr(%s)
	v := jmpWithRdx(dx)
	got, form := govcX86Target(0, v)
	if len(v) != 12 || form != "movabs rdx; jmp [rdx]" || got != dx {
		t.Fatalf("jmpWithRdx(%%#x) emitted %% x (%%s): RDX=%%#x", dx, v, form, got)
	}`, hexOf(model, "dx"))
	default:
		return "", "", false
	}
	src := "package " + pkg + "\n\nimport \"testing\"\n" + x86Twin + "\nfunc TestGovcReplay(t *testing.T) {\n" + body + "\n}\n"
	return pkgDir, src, true
}

func init() {
	registerProperty(&PropertyConfig{
		ID:      "C15",
		Arches:  []string{"amd64", "arm64"},
		Explain: "every emitted jump sequence is proved, for all 2^64 x 2^64 (from,to) pairs in exact 64-bit bit-vector arithmetic, to satisfy the ISA spec functions of /verif/spec/isa.spec (loop-free functions: complete)",
		Trusted: []string{"ISA spec functions in /verif/spec/isa.spec describe what the CPU does with the emitted bytes (Intel SDM / Arm ARM)", "GOARCH=386 variant (monkey_386.go) is not compiled by the package and is out of scope"},
		Replay:  replayC15,
	})
}
