package main

// aux_decoders.go — BOUNDED stand-ins for the two copied decoders (C16, C17).  These are not proofs:
// they run goom's decoder (copied mechanically from /repo's working tree on every run) under a
// run-time contract monitor and against the toolchain's own decoder, and are reported under
// separate, explicitly bounded evidence keys.  They are never counted in obligations/discharged.

import (
	"encoding/json"
	"fmt"
	"os"
	"os/exec"
	"path/filepath"
	"runtime"
	"strings"
)

const auxHarness = `package main

import (
	"debug/elf"
	"debug/gosym"
	"encoding/json"
	"fmt"
	"math/rand"
	"os"
	"sync"
	"sync/atomic"

	garm "auxdec/goomarm64"
	gx86 "auxdec/goomx86"
	rarm "auxdec/refarm64"
	rx86 "auxdec/refx86"
)

type report struct {
	Mode        string            ` + "`json:\"mode\"`" + `
	Evaluations int64             ` + "`json:\"evaluations\"`" + `
	Decoded     int64             ` + "`json:\"decoded\"`" + `
	Compared    int64             ` + "`json:\"compared\"`" + `
	Skipped     int64             ` + "`json:\"skipped_system_encodings\"`" + `
	Violations  []string          ` + "`json:\"violations\"`" + `
	Samples     []string          ` + "`json:\"samples\"`" + `
	Extra       map[string]int64  ` + "`json:\"extra\"`" + `
}

var mu sync.Mutex

func (r *report) viol(s string) {
	mu.Lock()
	if len(r.Violations) < 20 {
		r.Violations = append(r.Violations, s)
	}
	mu.Unlock()
}

// x86 contract monitor: the assumed contract of goom's Decode (internal/arch/x86asm/contracts_verif.go)
func checkX86(r *report, src []byte) (gx86.Inst, error, bool) {
	var inst gx86.Inst
	var err error
	panicked := false
	func() {
		defer func() {
			if e := recover(); e != nil {
				panicked = true
				r.viol(fmt.Sprintf("x86 Decode panicked on % x: %v", src, e))
			}
		}()
		inst, err = gx86.Decode(src, 64)
	}()
	if panicked || err != nil {
		return inst, err, !panicked
	}
	ok := true
	bad := func(f string, a ...interface{}) { ok = false; r.viol(fmt.Sprintf("x86 contract: "+f+" on % x", append(a, src)...)) }
	if inst.Len < 1 || inst.Len > 15 || inst.Len > len(src) {
		bad("Len=%d out of range", inst.Len)
	}
	if inst.PCRelOff < 0 || inst.PCRelOff > 15 {
		bad("PCRelOff=%d", inst.PCRelOff)
	}
	if inst.PCRelOff > 0 {
		if !(inst.PCRel == 1 || inst.PCRel == 2 || inst.PCRel == 4 || inst.PCRel == 8) || inst.PCRelOff+inst.PCRel > inst.Len {
			bad("PCRel=%d PCRelOff=%d Len=%d", inst.PCRel, inst.PCRelOff, inst.Len)
		}
		if inst.PCRel == 2 && (inst.PCRelOff < 2 || src[0] == 0) {
			bad("rel16 without prefix (PCRelOff=%d)", inst.PCRelOff)
		}
		if inst.PCRel <= 2 && inst.PCRelOff+inst.PCRel != inst.Len {
			bad("rel8/rel16 field not at the end (PCRelOff=%d PCRel=%d Len=%d)", inst.PCRelOff, inst.PCRel, inst.Len)
		}
	}
	b := src[0]
	if b == 0x74 || b == 0x76 || b == 0x7F || b == 0xEB {
		if !(inst.Len == 2 && inst.PCRelOff == 1 && inst.PCRel == 1) {
			bad("short branch shape Len=%d PCRelOff=%d PCRel=%d", inst.Len, inst.PCRelOff, inst.PCRel)
		}
	}
	func() {
		defer func() {
			if e := recover(); e != nil {
				ok = false
				r.viol(fmt.Sprintf("x86 Inst.String panicked on % x: %v", src, e))
			}
		}()
		_ = inst.String()
	}()
	return inst, nil, ok
}

func textOf(path string) (*elf.File, *gosym.Table, []byte, uint64, error) {
	f, err := elf.Open(path)
	if err != nil {
		return nil, nil, nil, 0, err
	}
	text := f.Section(".text")
	pcln := f.Section(".gopclntab")
	if text == nil || pcln == nil {
		return nil, nil, nil, 0, fmt.Errorf("no .text/.gopclntab in %s", path)
	}
	td, err := text.Data()
	if err != nil {
		return nil, nil, nil, 0, err
	}
	pd, err := pcln.Data()
	if err != nil {
		return nil, nil, nil, 0, err
	}
	tab, err := gosym.NewTable(nil, gosym.NewLineTable(pd, text.Addr))
	if err != nil {
		return nil, nil, nil, 0, err
	}
	return f, tab, td, text.Addr, nil
}

func runC16(tier string, seed int64, bins []string) *report {
	r := &report{Mode: "c16", Extra: map[string]int64{}}
	// (a) every instruction of real Go binaries, walked from each function entry; differential against the toolchain's decoder
	for _, bin := range bins {
		_, tab, td, base, err := textOf(bin)
		if err != nil {
			r.Samples = append(r.Samples, "skip "+bin+": "+err.Error())
			continue
		}
		nf := 0
		for i := range tab.Funcs {
			fn := &tab.Funcs[i]
			if fn.Entry < base || fn.End > base+uint64(len(td)) || fn.End <= fn.Entry {
				continue
			}
			nf++
			if tier == "quick" && nf%7 != 0 {
				continue
			}
			code := td[fn.Entry-base : fn.End-base]
			for pos := 0; pos < len(code); {
				end := pos + 16
				if end > len(code) {
					end = len(code)
				}
				src := code[pos:end]
				r.Evaluations++
				inst, err, _ := checkX86(r, src)
				ref, rerr := rx86.Decode(src, 64)
				if (err == nil) != (rerr == nil) {
					if !(err != nil && rerr == nil && false) {
						r.Extra["decodability_differs"]++
						if r.Extra["decodability_differs"] <= 3 {
							r.Samples = append(r.Samples, fmt.Sprintf("decodability differs at %s+%d % x: goom err=%v ref err=%v", fn.Name, pos, src, err, rerr))
						}
					}
				}
				if err != nil || inst.Len == 0 {
					if rerr == nil && ref.Len > 0 {
						pos += ref.Len
					} else {
						pos++
					}
					continue
				}
				r.Decoded++
				if rerr == nil {
					r.Compared++
					if inst.Len != ref.Len || inst.Op.String() != ref.Op.String() || inst.PCRel != ref.PCRel || inst.PCRelOff != ref.PCRelOff {
						r.viol(fmt.Sprintf("x86 differential %s+%d % x: goom (len=%d op=%s pcrel=%d off=%d) ref (len=%d op=%s pcrel=%d off=%d)",
							fn.Name, pos, src, inst.Len, inst.Op, inst.PCRel, inst.PCRelOff, ref.Len, ref.Op, ref.PCRel, ref.PCRelOff))
					}
				}
				if len(r.Samples) < 4 && inst.PCRelOff > 0 {
					r.Samples = append(r.Samples, fmt.Sprintf("%s+%d % x -> %s len=%d pcrel=%d@%d", fn.Name, pos, src[:inst.Len], inst.String(), inst.Len, inst.PCRel, inst.PCRelOff))
				}
				pos += inst.Len
			}
		}
		r.Extra["functions:"+bin] = int64(nf)
	}
	// (b) all 2^16 two-byte prefixes x seeded random tails: totality and contract only
	tails := 2
	if tier == "thorough" {
		tails = 48
	}
	rng := rand.New(rand.NewSource(seed))
	buf := make([]byte, 16)
	for p := 0; p < 1<<16; p++ {
		for k := 0; k < tails; k++ {
			buf[0], buf[1] = byte(p>>8), byte(p)
			for i := 2; i < 16; i++ {
				buf[i] = byte(rng.Intn(256))
			}
			n := 2 + rng.Intn(15)
			if n > 16 {
				n = 16
			}
			r.Evaluations++
			r.Extra["random_inputs"]++
			if _, err, _ := checkX86(r, buf[:n]); err == nil {
				r.Decoded++
			}
		}
	}
	return r
}

func isBranchClass(w uint32) bool {
	top := w >> 26
	return top == 0x05 || top == 0x25 || (w>>24)&0x7f == 0x54 || (w>>25)&0x3f == 0x1a || (w>>25)&0x3f == 0x1b || (w>>24)&0x1f == 0x10
}

func checkArm(r *report, w uint32) (cmpd bool) {
	src := []byte{byte(w), byte(w >> 8), byte(w >> 16), byte(w >> 24)}
	var gi garm.Inst
	var gerr error
	panicked := false
	func() {
		defer func() {
			if e := recover(); e != nil {
				panicked = true
				r.viol(fmt.Sprintf("arm64 Decode/String panicked on %08x: %v", w, e))
			}
		}()
		gi, gerr = garm.Decode(src)
		if gerr == nil {
			_ = gi.String()
		}
	}()
	if panicked {
		return false
	}
	ri, rerr := rarm.Decode(src)
	if (gerr == nil) != (rerr == nil) {
		// the system-instruction encodings goom deliberately leaves undecoded (SYS-space DC/TLBI aliases)
		if gerr != nil && rerr == nil && (ri.Op.String() == "DC" || ri.Op.String() == "TLBI" || ri.Op.String() == "SYS" || ri.Op.String() == "SYSL" || ri.Op.String() == "IC" || ri.Op.String() == "AT") {
			atomic.AddInt64(&r.Skipped, 1)
			return false
		}
		r.viol(fmt.Sprintf("arm64 decodability differs on %08x: goom err=%v ref err=%v (ref op %v)", w, gerr, rerr, ri.Op))
		return false
	}
	if gerr != nil {
		return false
	}
	if gi.Op.String() != ri.Op.String() {
		r.viol(fmt.Sprintf("arm64 opcode differs on %08x: goom %v ref %v", w, gi.Op, ri.Op))
		return true
	}
	// PC-relative displacement of branch/address forms
	for i := range gi.Args {
		ga, ok1 := gi.Args[i].(garm.PCRel)
		ra, ok2 := ri.Args[i].(rarm.PCRel)
		if ok1 != ok2 || (ok1 && int64(ga) != int64(ra)) {
			r.viol(fmt.Sprintf("arm64 PC-relative operand differs on %08x (%v): goom %v ref %v", w, gi.Op, gi.Args[i], ri.Args[i]))
		}
	}
	return true
}

func runC17(tier string, workers int) *report {
	r := &report{Mode: "c17", Extra: map[string]int64{}}
	var wg sync.WaitGroup
	var evals, decoded, compared int64
	part := func(lo, hi uint64, stride uint64, onlyBranch bool) {
		defer wg.Done()
		var e, d, c int64
		for x := lo; x < hi; x += stride {
			w := uint32(x)
			if onlyBranch && !isBranchClass(w) {
				continue
			}
			e++
			if checkArm(r, w) {
				c++
				d++
			}
		}
		atomic.AddInt64(&evals, e)
		atomic.AddInt64(&decoded, d)
		atomic.AddInt64(&compared, c)
	}
	chunk := uint64(1<<32) / uint64(workers)
	for i := 0; i < workers; i++ {
		lo, hi := uint64(i)*chunk, uint64(i+1)*chunk
		wg.Add(1)
		if tier == "thorough" {
			go part(lo, hi, 1, false)
		} else {
			go part(lo+uint64(i), hi, 4099, false)
		}
	}
	wg.Wait()
	if tier != "thorough" {
		// every 257th word of the branch / ADR(P) classes in addition to the stride
		for i := 0; i < workers; i++ {
			lo, hi := uint64(i)*chunk, uint64(i+1)*chunk
			wg.Add(1)
			go part(lo, hi, 257, true)
		}
		wg.Wait()
	}
	r.Evaluations, r.Decoded, r.Compared = evals, decoded, compared
	for _, w := range []uint32{0x14000001, 0x97ffffff, 0x54000040, 0x90000000, 0xd503201f, 0xd61f0360} {
		src := []byte{byte(w), byte(w >> 8), byte(w >> 16), byte(w >> 24)}
		if gi, err := garm.Decode(src); err == nil {
			r.Samples = append(r.Samples, fmt.Sprintf("%08x -> %s", w, gi.String()))
		}
	}
	r.Extra["exhaustive"] = 0
	if tier == "thorough" {
		r.Extra["exhaustive"] = 1
	}
	return r
}

func main() {
	mode, tier := os.Args[1], os.Args[2]
	var seed int64 = 1
	fmt.Sscanf(os.Args[3], "%d", &seed)
	var r *report
	if mode == "c16" {
		r = runC16(tier, seed, os.Args[4:])
	} else {
		r = runC17(tier, 16)
	}
	json.NewEncoder(os.Stdout).Encode(r)
}
`

type auxReport struct {
	Mode        string           `json:"mode"`
	Evaluations int64            `json:"evaluations"`
	Decoded     int64            `json:"decoded"`
	Compared    int64            `json:"compared"`
	Skipped     int64            `json:"skipped_system_encodings"`
	Violations  []string         `json:"violations"`
	Samples     []string         `json:"samples"`
	Extra       map[string]int64 `json:"extra"`
}

func copyGoFiles(src, dst string, skip func(string) bool) error {
	os.MkdirAll(dst, 0o755)
	ents, err := os.ReadDir(src)
	if err != nil {
		return err
	}
	for _, e := range ents {
		n := e.Name()
		if e.IsDir() || !strings.HasSuffix(n, ".go") || strings.HasSuffix(n, "_test.go") || strings.HasPrefix(n, "contracts_verif") {
			continue
		}
		if skip != nil && skip(n) {
			continue
		}
		data, err := os.ReadFile(filepath.Join(src, n))
		if err != nil {
			return err
		}
		if err := os.WriteFile(filepath.Join(dst, n), data, 0o644); err != nil {
			return err
		}
	}
	return nil
}

// runDecoderAux builds and runs the bounded harness; mode is "c16" or "c17".
func runDecoderAux(o *Options, scratch, mode string) *AuxResult {
	res := &AuxResult{Coverage: map[string]interface{}{}}
	dir := filepath.Join(scratch, "auxdec")
	goroot := runtime.GOROOT()
	if out, err := exec.Command("go", "env", "GOROOT").Output(); err == nil {
		goroot = strings.TrimSpace(string(out))
	}
	ref := filepath.Join(goroot, "src/cmd/vendor/golang.org/x/arch")
	steps := []struct{ src, dst string }{
		{filepath.Join(o.Repo, "internal/arch/x86asm"), "goomx86"},
		{filepath.Join(o.Repo, "internal/arch/arm64asm"), "goomarm64"},
		{filepath.Join(ref, "x86/x86asm"), "refx86"},
		{filepath.Join(ref, "arm64/arm64asm"), "refarm64"},
	}
	for _, s := range steps {
		if err := copyGoFiles(s.src, filepath.Join(dir, s.dst), nil); err != nil {
			res.Lines = append(res.Lines, "NOTE bounded decoder harness cannot be built: "+err.Error())
			return res
		}
	}
	os.WriteFile(filepath.Join(dir, "go.mod"), []byte("module auxdec\n\ngo 1.23\n"), 0o644)
	os.WriteFile(filepath.Join(dir, "main.go"), []byte(auxHarness), 0o644)
	bin := filepath.Join(dir, "auxdec.bin")
	build := exec.Command("go", "build", "-o", bin, ".")
	build.Dir = dir
	build.Env = append(os.Environ(), "GOFLAGS=-mod=mod", "GOPROXY=off", "GOSUMDB=off", "GOTOOLCHAIN=local", "CGO_ENABLED=0", "GOARCH=amd64")
	if out, err := build.CombinedOutput(); err != nil {
		res.Lines = append(res.Lines, "NOTE bounded decoder harness does not compile (decoder source changed shape?): "+truncate(string(out), 600))
		res.Violations = 0
		return res
	}
	args := []string{mode, o.Tier, fmt.Sprint(o.Seed)}
	if mode == "c16" {
		args = append(args, bin)
		for _, b := range []string{filepath.Join(goroot, "bin/go"), filepath.Join(goroot, "bin/gofmt"), filepath.Join(o.Verif, "bin/govc")} {
			if _, err := os.Stat(b); err == nil {
				args = append(args, b)
				if o.Tier != "thorough" {
					break
				}
			}
		}
	}
	cmd := exec.Command(bin, args...)
	out, err := cmd.Output()
	if err != nil {
		res.Lines = append(res.Lines, fmt.Sprintf("NOTE bounded decoder harness failed to run: %v", err))
		return res
	}
	var rep auxReport
	if err := json.Unmarshal(out, &rep); err != nil {
		res.Lines = append(res.Lines, "NOTE bounded decoder harness output unreadable")
		return res
	}
	key := "bounded_" + mode
	res.Coverage[key] = map[string]interface{}{
		"label":       "BOUNDED stand-in (run-time contract monitor + differential test against the toolchain's decoder); not a proof, not counted in obligations",
		"evaluations": rep.Evaluations, "decoded": rep.Decoded, "compared_with_reference": rep.Compared,
		"skipped_system_encodings": rep.Skipped, "violations": len(rep.Violations), "samples": rep.Samples, "details": rep.Extra,
		"exhaustive": rep.Extra["exhaustive"] == 1,
	}
	res.Coverage["evaluations_bounded"] = rep.Evaluations
	if len(rep.Violations) > 0 {
		dirR := filepath.Join(o.Out, "replays", o.Property)
		os.MkdirAll(dirR, 0o755)
		path := filepath.Join(dirR, "bounded_"+mode+".json")
		data, _ := json.MarshalIndent(map[string]interface{}{"property": o.Property, "kind": "bounded decoder monitor", "failing_inputs": rep.Violations}, "", " ")
		os.WriteFile(path, data, 0o644)
		res.Violations = len(rep.Violations)
		res.Lines = append(res.Lines, fmt.Sprintf("VIOLATION property=%s replay=%s obligation=bounded:%s %s", o.Property, path, mode, truncate(rep.Violations[0], 200)))
	}
	res.Assume = append(res.Assume, "bounded stand-in "+mode+": the toolchain's decoder ($GOROOT/src/cmd/vendor/golang.org/x/arch) is the reference for opcode/length/PC-relative fields; inputs bounded as reported")
	return res
}
