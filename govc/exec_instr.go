package main

// exec_instr.go — symbolic execution of go/ssa instructions.

import (
	"fmt"
	"go/constant"
	"go/token"
	"go/types"
	"math/big"
	"strings"

	"golang.org/x/tools/go/ssa"
)

func shiftCount(cnt Val, w int) string {
	cw, ok := isBV(cnt.S)
	if !ok {
		panic(unsupported("shift count of sort " + cnt.S))
	}
	ct := cnt.T
	if cw < w {
		ct = sx(fmt.Sprintf("(_ zero_extend %d)", w-cw), ct)
	} else if cw > w {
		hi := sx(fmt.Sprintf("(_ extract %d %d)", cw-1, w), ct)
		lo := sx(fmt.Sprintf("(_ extract %d 0)", w-1), ct)
		ct = smtIte(sx("=", hi, bvLitI(0, cw-w)), lo, bvLitI(int64(w), w))
	}
	return ct
}

func (ex *Exec) constVal(c *ssa.Const) Val {
	ctx := ex.ctx
	t := c.Type()
	if c.Value == nil {
		return zeroTerm(ctx, t)
	}
	if b, ok := t.Underlying().(*types.Basic); ok {
		switch {
		case b.Info()&types.IsBoolean != 0:
			if constant.BoolVal(c.Value) {
				return Val{T: "true", S: sortBool, Ty: t}
			}
			return Val{T: "false", S: sortBool, Ty: t}
		case b.Info()&types.IsInteger != 0:
			k, _ := new(big.Int).SetString(constant.ToInt(c.Value).ExactString(), 10)
			s := ctx.sortFor(t)
			if b.Info()&types.IsUntyped != 0 {
				s = bvSort(64)
			}
			n, _ := isBV(s)
			return Val{T: bvLit(k, n), S: s, Ty: t}
		case b.Info()&types.IsString != 0:
			return Val{T: ctx.strLit(constant.StringVal(c.Value)), S: sortStr, Ty: t}
		case b.Info()&types.IsFloat != 0, b.Info()&types.IsComplex != 0:
			name := "flt!" + smtIdent(c.Value.ExactString())
			ctx.declConst(name, "Float")
			return Val{T: name, S: "Float", Ty: t}
		}
	}
	panic(unsupported(fmt.Sprintf("constant %v of type %v", c, t)))
}

// val returns the symbolic value of an SSA value in the current frame.
func (ex *Exec) val(st *State, v ssa.Value) Val {
	switch x := v.(type) {
	case *ssa.Const:
		return ex.constVal(x)
	case *ssa.Global:
		obj, _ := x.Object().(*types.Var)
		pt := x.Type().(*types.Pointer)
		if obj == nil {
			// synthetic globals (init guards)
			name := "g!" + smtIdent(x.String())
			ex.ctx.declConst(name, sortRef)
			s := ex.ctx.sortFor(pt.Elem())
			h := ex.ctx.heapDecl("G!"+smtIdent(x.String()), s)
			return Val{T: name, S: sortRef, Ty: x.Type(), P: &Ptr{Kind: pGlobal, Base: name, Heap: h, Elem: pt.Elem()}}
		}
		s := ex.ctx.sortFor(pt.Elem())
		h := ex.ctx.heapDecl(globalHeapName(obj), s)
		return Val{T: ex.globalRef(obj), S: sortRef, Ty: x.Type(), P: &Ptr{Kind: pGlobal, Base: ex.globalRef(obj), Heap: h, Elem: pt.Elem()}}
	case *ssa.Function:
		name := "fn!" + smtIdent(funcKey(x))
		ex.ctx.declConst(name, sortFunc)
		ex.ctx.fact("fnn!"+name, smtNot(sx("=", name, "func_nil")), name)
		return Val{T: name, S: sortFunc, Ty: x.Type()}
	case *ssa.Builtin:
		return Val{T: "builtin", S: "builtin"}
	}
	for fr := st.fr; fr != nil; fr = nil {
		if r, ok := fr.vals[v]; ok {
			return r
		}
	}
	panic(unsupported(fmt.Sprintf("value %s (%T) not bound in %s", v.Name(), v, st.fr.fn.Name())))
}

func (st *State) setVal(v ssa.Value, r Val) {
	if r.Ty == nil {
		r.Ty = v.Type()
	}
	// name composite terms so that later uses stay small
	if r.T != "" && r.Tup == nil && r.S != "builtin" {
		r.T = st.define(st.fr.fn.Name()+"."+v.Name(), r.S, r.T)
	}
	st.fr.vals[v] = r
}

// ---------------------------------------------------------------------------

func (ex *Exec) binop(st *State, op token.Token, a, b Val, resTy types.Type) Val {
	ctx := ex.ctx
	tb := types.Typ[types.Bool]
	switch op {
	case token.EQL, token.NEQ:
		var t string
		switch {
		case a.S == sortSl || b.S == sortSl:
			// only comparison with nil is legal
			x := a
			if b.S == sortSl && a.S != sortSl {
				x = b
			}
			t = sx("=", slArr(x.T), "nilarr")
		case a.S != b.S:
			panic(unsupported(fmt.Sprintf("comparison of sorts %s and %s", a.S, b.S)))
		case a.P != nil && a.P.Kind != pObj && a.P.Kind != pGlobal, b.P != nil && b.P.Kind != pObj && b.P.Kind != pGlobal:
			panic(unsupported("comparison of interior pointers"))
		default:
			t = sx("=", a.T, b.T)
		}
		if op == token.NEQ {
			t = smtNot(t)
		}
		return Val{T: t, S: sortBool, Ty: tb}
	}
	if a.S == sortStr {
		if op == token.ADD {
			return Val{T: sx("str_concat", a.T, b.T), S: sortStr, Ty: resTy}
		}
		// ordering on strings: uninterpreted
		f := ctx.declFun("str_lt", []string{sortStr, sortStr}, sortBool)
		switch op {
		case token.LSS:
			return Val{T: sx(f, a.T, b.T), S: sortBool, Ty: tb}
		case token.GTR:
			return Val{T: sx(f, b.T, a.T), S: sortBool, Ty: tb}
		case token.LEQ:
			return Val{T: smtNot(sx(f, b.T, a.T)), S: sortBool, Ty: tb}
		case token.GEQ:
			return Val{T: smtNot(sx(f, a.T, b.T)), S: sortBool, Ty: tb}
		}
	}
	if a.S == "Float" {
		name := "flt_" + smtIdent(op.String())
		switch op {
		case token.LSS, token.GTR, token.LEQ, token.GEQ:
			ctx.declFun(name, []string{"Float", "Float"}, sortBool)
			return Val{T: sx(name, a.T, b.T), S: sortBool, Ty: tb}
		}
		ctx.declFun(name, []string{"Float", "Float"}, "Float")
		return Val{T: sx(name, a.T, b.T), S: "Float", Ty: resTy}
	}
	if a.S == sortBool {
		switch op {
		case token.AND, token.LAND:
			return Val{T: smtAnd(a.T, b.T), S: sortBool, Ty: tb}
		case token.OR, token.LOR:
			return Val{T: smtOr(a.T, b.T), S: sortBool, Ty: tb}
		}
	}
	w, ok := isBV(a.S)
	if !ok {
		panic(unsupported(fmt.Sprintf("binary %s on sort %s", op, a.S)))
	}
	uns := isUnsigned(a.Ty)
	switch op {
	case token.SHL:
		return Val{T: sx("bvshl", a.T, shiftCount(b, w)), S: a.S, Ty: resTy}
	case token.SHR:
		if uns {
			return Val{T: sx("bvlshr", a.T, shiftCount(b, w)), S: a.S, Ty: resTy}
		}
		return Val{T: sx("bvashr", a.T, shiftCount(b, w)), S: a.S, Ty: resTy}
	}
	if a.S != b.S {
		panic(unsupported(fmt.Sprintf("binary %s on %s and %s", op, a.S, b.S)))
	}
	f := ""
	switch op {
	case token.ADD:
		f = "bvadd"
	case token.SUB:
		f = "bvsub"
	case token.MUL:
		f = "bvmul"
	case token.AND:
		f = "bvand"
	case token.OR:
		f = "bvor"
	case token.XOR:
		f = "bvxor"
	case token.AND_NOT:
		return Val{T: sx("bvand", a.T, sx("bvnot", b.T)), S: a.S, Ty: resTy}
	case token.QUO:
		f = "bvsdiv"
		if uns {
			f = "bvudiv"
		}
	case token.REM:
		f = "bvsrem"
		if uns {
			f = "bvurem"
		}
	}
	if f != "" {
		return Val{T: sx(f, a.T, b.T), S: a.S, Ty: resTy}
	}
	cu := map[token.Token]string{token.LSS: "bvult", token.LEQ: "bvule", token.GTR: "bvugt", token.GEQ: "bvuge"}
	cs := map[token.Token]string{token.LSS: "bvslt", token.LEQ: "bvsle", token.GTR: "bvsgt", token.GEQ: "bvsge"}
	if g, ok := cu[op]; ok {
		if !uns {
			g = cs[op]
		}
		return Val{T: sx(g, a.T, b.T), S: sortBool, Ty: tb}
	}
	panic(unsupported("binary operator " + op.String()))
}

func (ex *Exec) elemSize(t types.Type) int64 { return ex.ctx.sizes.Sizeof(t) }

// addrOfPtr gives the machine address a pointer denotes (for uintptr conversions).
func (ex *Exec) addrOfPtr(st *State, v Val) string {
	if v.P == nil || v.P.Kind == pObj || v.P.Kind == pGlobal || v.P.Kind == pRaw {
		return sx("addr_of", v.T)
	}
	p := v.P
	if p.Kind == pElem {
		sz := ex.elemSize(p.Elem)
		off := p.Idx
		if sz != 1 {
			off = sx("bvmul", p.Idx, bv64(sz))
		}
		// text memory is identity mapped: the index into textref's array is the address
		return smtIte(sx("=", p.Base, "textref"), off, sx("bvadd", sx("addr_of", p.Base), off))
	}
	panic(unsupported("address of interior pointer"))
}

// needNil reports whether a nil check obligation is needed for a pointer.
func (st *State) knownNonNil(v Val) bool {
	if v.P != nil && v.P.Kind != pObj {
		return true
	}
	if strings.HasPrefix(v.T, "g!") {
		return true
	}
	for _, f := range st.fresh {
		if f == v.T {
			return true
		}
	}
	return false
}

// execInstr executes one non-terminator instruction.  It returns the states
// that continue with the next instruction (normally just st); states in which
// a panic started are returned with st.panicV set.
func (ex *Exec) execInstr(st *State, in ssa.Instruction) []*State {
	ctx := ex.ctx
	fr := st.fr
	switch x := in.(type) {
	case *ssa.DebugRef:
		return []*State{st}
	case *ssa.Alloc:
		ref := st.freshRef(fr.fn.Name() + "." + x.Name())
		pt := x.Type().(*types.Pointer)
		v := Val{T: ref, S: sortRef, Ty: x.Type()}
		st.store(&Ptr{Kind: pObj, Base: ref, Elem: pt.Elem()}, zeroTerm(ctx, pt.Elem()))
		st.fr.vals[x] = v
	case *ssa.BinOp:
		a, b := ex.val(st, x.X), ex.val(st, x.Y)
		if x.Op == token.QUO || x.Op == token.REM {
			if w, ok := isBV(b.S); ok {
				ex.oblige(st, in, "safe", "div_nonzero", smtNot(sx("=", b.T, bvLitI(0, w))), "divisor != 0")
			}
		}
		st.setVal(x, ex.binop(st, x.Op, a, b, x.Type()))
	case *ssa.UnOp:
		a := ex.val(st, x.X)
		switch x.Op {
		case token.MUL:
			if !st.knownNonNil(a) {
				ex.oblige(st, in, "safe", "nil_deref", smtNot(sx("=", a.T, "nil")), "pointer != nil")
			}
			v := st.load(st.ptrOf(a))
			v.Ty = x.Type()
			st.setVal(x, v)
			ex.assumeLoaded(st, st.fr.vals[x])
		case token.SUB:
			if a.S == "Float" {
				ctx.declFun("flt_neg", []string{"Float"}, "Float")
				st.setVal(x, Val{T: sx("flt_neg", a.T), S: "Float"})
			} else {
				st.setVal(x, Val{T: sx("bvneg", a.T), S: a.S})
			}
		case token.XOR:
			st.setVal(x, Val{T: sx("bvnot", a.T), S: a.S})
		case token.NOT:
			st.setVal(x, Val{T: smtNot(a.T), S: sortBool})
		default:
			panic(unsupported("unary " + x.Op.String()))
		}
	case *ssa.ChangeInterface:
		v := ex.val(st, x.X)
		v.Ty = x.Type()
		st.fr.vals[x] = v
	case *ssa.ChangeType:
		v := ex.val(st, x.X)
		v.Ty = x.Type()
		st.fr.vals[x] = v
	case *ssa.Convert:
		st.setVal(x, ex.convert(st, ex.val(st, x.X), x.X.Type(), x.Type()))
	case *ssa.Extract:
		t := ex.val(st, x.Tuple)
		if x.Index >= len(t.Tup) {
			panic(unsupported("extract from non-tuple"))
		}
		v := t.Tup[x.Index]
		v.Ty = x.Type()
		st.fr.vals[x] = v
	case *ssa.Field:
		a := ex.val(st, x.X)
		n, s := structOf(x.X.Type())
		if s == nil || !ctx.isDatatypeStruct(x.X.Type()) {
			panic(unsupported(fmt.Sprintf("field of opaque struct value %v", x.X.Type())))
		}
		f := s.Field(x.Field)
		st.setVal(x, Val{T: sx(fieldAcc(typeKey(n), f.Name(), x.Field), a.T), S: ctx.sortFor(f.Type())})
	case *ssa.FieldAddr:
		a := ex.val(st, x.X)
		if !st.knownNonNil(a) {
			ex.oblige(st, in, "safe", "nil_field", smtNot(sx("=", a.T, "nil")), "pointer != nil")
		}
		a.Ty = x.X.Type()
		p := st.fieldPtr(a, x.Field)
		st.fr.vals[x] = Val{S: sortRef, Ty: x.Type(), P: p}
	case *ssa.Index:
		a, i := ex.val(st, x.X), ex.val(st, x.Index)
		i = convertInt(ctx, i, types.Typ[types.Int])
		switch t := x.X.Type().Underlying().(type) {
		case *types.Array:
			ex.oblige(st, in, "safe", "index", sx("bvult", i.T, bv64(t.Len())), "index in range")
			st.setVal(x, Val{T: sx("select", a.T, i.T), S: ctx.sortFor(t.Elem())})
		default:
			// string index
			f := ctx.declFun("str_at", []string{sortStr, bvSort(64)}, bvSort(8))
			ex.oblige(st, in, "safe", "index", sx("bvult", i.T, sx("str_len", a.T)), "index in range")
			st.setVal(x, Val{T: sx(f, a.T, i.T), S: bvSort(8)})
		}
	case *ssa.IndexAddr:
		a, i := ex.val(st, x.X), ex.val(st, x.Index)
		i = convertInt(ctx, i, types.Typ[types.Int])
		switch t := x.X.Type().Underlying().(type) {
		case *types.Slice:
			ex.oblige(st, in, "safe", "index", sx("bvult", i.T, slLen(a.T)), "index < len")
			a.Ty = x.X.Type()
			ep := st.sliceElemPtr(a, i.T)
			if ep.Kind == pObj {
				st.setVal(x, Val{T: ep.Base, S: sortRef, Ty: x.Type()})
			} else {
				st.fr.vals[x] = Val{S: sortRef, Ty: x.Type(), P: ep}
			}
		case *types.Pointer:
			at := t.Elem().Underlying().(*types.Array)
			ex.oblige(st, in, "safe", "index", sx("bvult", i.T, bv64(at.Len())), "index < array length")
			es := ctx.sortFor(at.Elem())
			if a.P != nil && a.P.Kind == pField {
				st.fr.vals[x] = Val{S: sortRef, Ty: x.Type(), P: &Ptr{Kind: pFieldElem, Base: a.P.Base, Heap: a.P.Heap, Idx: i.T, Elem: at.Elem()}}
			} else if a.P != nil && a.P.Kind != pObj {
				panic(unsupported("index of array behind interior pointer"))
			} else {
				if !st.knownNonNil(a) {
					ex.oblige(st, in, "safe", "nil_index", smtNot(sx("=", a.T, "nil")), "array pointer != nil")
				}
				st.fr.vals[x] = Val{S: sortRef, Ty: x.Type(), P: &Ptr{Kind: pElem, Base: a.T, Heap: ctx.elemHeap(es), Idx: i.T, Elem: at.Elem()}}
			}
		default:
			panic(unsupported(fmt.Sprintf("IndexAddr on %v", x.X.Type())))
		}
	case *ssa.Lookup:
		a, k := ex.val(st, x.X), ex.val(st, x.Index)
		mt, ok := x.X.Type().Underlying().(*types.Map)
		if !ok {
			panic(unsupported("string lookup"))
		}
		ks, vs := ctx.sortFor(mt.Key()), ctx.sortFor(mt.Elem())
		vh, ph := ctx.mapHeaps(ks, vs)
		pres := sx("select", sx("select", st.hget(ph), a.T), k.T)
		// lookup in a nil map yields the zero value
		pres = smtAnd(smtNot(sx("=", a.T, "nil")), pres)
		val := smtIte(pres, sx("select", sx("select", st.hget(vh), a.T), k.T), zeroTerm(ctx, mt.Elem()).T)
		if x.CommaOk {
			v := Val{T: st.define("lk", vs, val), S: vs, Ty: mt.Elem()}
			ex.assumeLoaded(st, v)
			st.fr.vals[x] = Val{Tup: []Val{v, {T: st.define("ok", sortBool, pres), S: sortBool, Ty: types.Typ[types.Bool]}}}
		} else {
			st.setVal(x, Val{T: val, S: vs, Ty: mt.Elem()})
			ex.assumeLoaded(st, st.fr.vals[x])
		}
	case *ssa.MakeClosure:
		fn := x.Fn.(*ssa.Function)
		var bs []Val
		for _, b := range x.Bindings {
			bs = append(bs, ex.val(st, b))
		}
		name := st.freshConst("clo."+fn.Name(), sortFunc)
		st.assume(smtNot(sx("=", name, "func_nil")))
		st.fr.vals[x] = Val{T: name, S: sortFunc, Ty: x.Type(), Clo: &Closure{Fn: fn, Bindings: bs}}
	case *ssa.MakeInterface:
		a := ex.val(st, x.X)
		if a.P != nil && a.P.Kind != pObj && a.P.Kind != pGlobal {
			panic(unsupported("interior pointer stored in interface"))
		}
		box, _ := ctx.boxFns(x.X.Type())
		v := Val{T: sx(box, a.T), S: sortIfc, Ty: x.Type(), Clo: a.Clo}
		st.setVal(x, v)
	case *ssa.MakeMap:
		mt := x.Type().Underlying().(*types.Map)
		ref := st.freshRef("map")
		ks, vs := ctx.sortFor(mt.Key()), ctx.sortFor(mt.Elem())
		_, ph := ctx.mapHeaps(ks, vs)
		st.hset(ph, sx("store", st.hget(ph), ref, fmt.Sprintf("((as const %s) false)", arraySort(ks, sortBool))))
		st.fr.vals[x] = Val{T: ref, S: sortRef, Ty: x.Type()}
	case *ssa.MakeSlice:
		ln := convertInt(ctx, ex.val(st, x.Len), types.Typ[types.Int])
		cp := convertInt(ctx, ex.val(st, x.Cap), types.Typ[types.Int])
		ex.oblige(st, in, "safe", "makeslice", smtAnd(sx("bvsle", bv64(0), ln.T), sx("bvsle", ln.T, cp.T), sx("bvslt", cp.T, bv64(1<<47))), "0 <= len <= cap (and allocatable)")
		ref := st.freshRef("mk")
		et := x.Type().Underlying().(*types.Slice).Elem()
		es := ctx.sortFor(et)
		h := ctx.elemHeap(es)
		z := zeroTerm(ctx, types.NewArray(et, 0))
		st.hset(h, sx("store", st.hget(h), ref, z.T))
		st.setVal(x, Val{T: mkSlice(ref, bv64(0), ln.T, cp.T), S: sortSl})
	case *ssa.MapUpdate:
		m, k, v := ex.val(st, x.Map), ex.val(st, x.Key), ex.val(st, x.Value)
		mt := x.Map.Type().Underlying().(*types.Map)
		ex.oblige(st, in, "safe", "nil_map", smtNot(sx("=", m.T, "nil")), "map != nil")
		ks, vs := ctx.sortFor(mt.Key()), ctx.sortFor(mt.Elem())
		vh, ph := ctx.mapHeaps(ks, vs)
		if v.P != nil && v.P.Kind != pObj && v.P.Kind != pGlobal {
			panic(unsupported("interior pointer stored in map"))
		}
		hv, hp := st.hget(vh), st.hget(ph)
		st.hset(vh, sx("store", hv, m.T, sx("store", sx("select", hv, m.T), k.T, v.T)))
		st.hset(ph, sx("store", hp, m.T, sx("store", sx("select", hp, m.T), k.T, "true")))
	case *ssa.Slice:
		ex.execSlice(st, x)
	case *ssa.Store:
		a, v := ex.val(st, x.Addr), ex.val(st, x.Val)
		if !st.knownNonNil(a) {
			ex.oblige(st, in, "safe", "nil_store", smtNot(sx("=", a.T, "nil")), "pointer != nil")
		}
		if v.P != nil && v.P.Kind != pObj && v.P.Kind != pGlobal {
			panic(unsupported("interior pointer stored to memory"))
		}
		a.Ty = x.Addr.Type()
		st.store(st.ptrOf(a), v)
	case *ssa.TypeAssert:
		return ex.execTypeAssert(st, x)
	case *ssa.Call:
		return ex.execCall(st, x, &x.Call, x)
	case *ssa.Defer:
		st.fr.defers = append(st.fr.defers, x)
		// evaluate arguments now (Go semantics)
		var args []Val
		for _, a := range x.Call.Args {
			args = append(args, ex.val(st, a))
		}
		st.fr.deferArgs = append(st.fr.deferArgs, args)
		if !x.Call.IsInvoke() {
			st.fr.deferFn = append(st.fr.deferFn, ex.val(st, x.Call.Value))
		} else {
			st.fr.deferFn = append(st.fr.deferFn, ex.val(st, x.Call.Value))
		}
	case *ssa.Range:
		mt, ok := x.X.Type().Underlying().(*types.Map)
		if !ok {
			panic(unsupported("range over a string"))
		}
		m := ex.val(st, x.X)
		ks, vs := ctx.sortFor(mt.Key()), ctx.sortFor(mt.Elem())
		vh, ph := ctx.mapHeaps(ks, vs)
		hname := "IT!" + smtIdent(fr.fn.Name()+"."+x.Name())
		ctx.heapDecl(hname, arraySort(ks, sortBool))
		st.heap[hname] = st.define(hname, arraySort(ks, sortBool), fmt.Sprintf("((as const %s) false)", arraySort(ks, sortBool)))
		if st.iters == nil {
			st.iters = map[string]*iterInfo{}
		}
		// a nil map has no entries
		pres := st.define("itpres", arraySort(ks, sortBool), sx("select", st.hget(ph), m.T))
		st.assume(smtImp(sx("=", m.T, "nil"), sx("=", pres, fmt.Sprintf("((as const %s) false)", arraySort(ks, sortBool)))))
		vals := st.define("itvals", arraySort(ks, vs), sx("select", st.hget(vh), m.T))
		st.iters[x.Name()] = &iterInfo{Heap: hname, Pres: pres, Vals: vals, KS: ks, VS: vs, KT: mt.Key(), VT: mt.Elem()}
		st.lastIter = x.Name()
		st.fr.vals[x] = Val{T: "iter", S: "iter"}
		ex.noteAssumption("range over a map visits exactly the entries present when the loop was reached, each once, in unspecified order (the loop body is assumed not to insert into or delete from that map)")
	case *ssa.Next:
		if x.IsString {
			panic(unsupported("range over a string"))
		}
		it := st.iters[x.Iter.Name()]
		if it == nil {
			panic(unsupported("next on unknown iterator"))
		}
		ok := st.freshConst("it.ok", sortBool)
		k := st.freshConst("it.k", it.KS)
		v := st.freshConst("it.v", it.VS)
		vis := st.hget(it.Heap)
		q := fmt.Sprintf("q!k!%d", ex.counter.Add(1))
		st.assume(smtImp(ok, smtAnd(sx("select", it.Pres, k), smtNot(sx("select", vis, k)), sx("=", v, sx("select", it.Vals, k)))))
		st.assume(smtImp(smtNot(ok), fmt.Sprintf("(forall ((%s %s)) (! (=> (select %s %s) (select %s %s)) :pattern ((select %s %s))))", q, it.KS, it.Pres, q, vis, q, it.Pres, q)))
		st.hset(it.Heap, smtIte(ok, sx("store", vis, k, "true"), vis))
		kv, vv := Val{T: k, S: it.KS, Ty: it.KT}, Val{T: v, S: it.VS, Ty: it.VT}
		ex.assumeLoaded(st, vv)
		st.fr.vals[x] = Val{Tup: []Val{{T: ok, S: sortBool, Ty: types.Typ[types.Bool]}, kv, vv}}
	case *ssa.Go, *ssa.Send, *ssa.Select, *ssa.MakeChan, *ssa.SliceToArrayPointer, *ssa.MultiConvert:
		panic(unsupported(fmt.Sprintf("instruction %T", in)))
	default:
		panic(unsupported(fmt.Sprintf("instruction %T", in)))
	}
	return []*State{st}
}

// assumeLoaded adds the typing invariants of a value read from the heap or
// received from outside: references are nil, allocated before entry, or
// allocated on this path; slices are well formed.
func (ex *Exec) assumeLoaded(st *State, v Val) {
	if st.noLoadAssume {
		return
	}
	switch v.S {
	case sortRef:
		if v.T == "" || v.P != nil {
			return
		}
		if st.callResult {
			return // a callee may return an object it allocated itself
		}
		alts := []string{sx("alive0", v.T), sx("=", v.T, "nil")}
		for _, f := range st.fresh {
			alts = append(alts, sx("=", v.T, f))
		}
		st.assume(smtOr(alts...))
	case sortSl:
		alts := []string{sx("alive0", slArr(v.T)), sx("=", slArr(v.T), "nilarr"), sx("=", slArr(v.T), "textref")}
		for _, f := range st.fresh {
			alts = append(alts, sx("=", slArr(v.T), f))
		}
		origin := smtOr(alts...)
		if st.callResult {
			origin = "true" // a callee may return a backing array it allocated itself
		}
		st.assume(smtAnd(
			origin,
			sx("bvsle", bv64(0), slLen(v.T)), sx("bvsle", slLen(v.T), slCap(v.T)),
			sx("bvult", slCap(v.T), bv64(1<<48)),
			sx("bvult", slOff(v.T), "#x8000000000000000"),
			smtImp(sx("=", slArr(v.T), "nilarr"), sx("=", slCap(v.T), bv64(0))),
		))
	}
}

func (ex *Exec) convert(st *State, v Val, from, to types.Type) Val {
	ctx := ex.ctx
	fu, tu := from.Underlying(), to.Underlying()
	if isInteger(tu) && isInteger(fu) {
		v.Ty = from
		return convertInt(ctx, v, to)
	}
	fb, _ := fu.(*types.Basic)
	tbb, _ := tu.(*types.Basic)
	switch {
	case tbb != nil && tbb.Kind() == types.UnsafePointer:
		if fb != nil && fb.Info()&types.IsInteger != 0 { // uintptr -> unsafe.Pointer
			return Val{T: sx("ptr_at", v.T), S: sortRef, Ty: to, P: &Ptr{Kind: pRaw, Base: sx("ptr_at", v.T)}}
		}
		if pt, ok := fu.(*types.Pointer); ok && v.Orig == nil {
			v.Orig = pt.Elem()
		}
		v.Ty = to // *T -> unsafe.Pointer keeps the structured pointer
		return v
	case fb != nil && fb.Kind() == types.UnsafePointer:
		if isInteger(tu) { // unsafe.Pointer -> uintptr
			return Val{T: ex.addrOfPtr(st, v), S: bvSort(64), Ty: to}
		}
		if pt, ok := tu.(*types.Pointer); ok { // unsafe.Pointer -> *T
			return ex.castPointer(st, v, pt)
		}
	case tbb != nil && tbb.Info()&types.IsFloat != 0, fb != nil && fb.Info()&types.IsFloat != 0:
		name := "cvt_" + smtIdent(from.String()) + "_" + smtIdent(to.String())
		ts := ctx.sortFor(to)
		ctx.declFun(name, []string{v.S}, ts)
		return Val{T: sx(name, v.T), S: ts, Ty: to}
	case tbb != nil && tbb.Info()&types.IsString != 0, fb != nil && fb.Info()&types.IsString != 0:
		name := "cvt_" + smtIdent(from.String()) + "_" + smtIdent(to.String())
		ts := ctx.sortFor(to)
		ctx.declFun(name, []string{v.S}, ts)
		r := Val{T: sx(name, v.T), S: ts, Ty: to}
		return r
	}
	if ctx.sortFor(from) == ctx.sortFor(to) {
		v.Ty = to
		return v
	}
	panic(unsupported(fmt.Sprintf("conversion %v -> %v", from, to)))
}

// castPointer gives meaning to the unsafe pointer casts that occur in the
// functions under contract (see DESIGN §2.4).
func (ex *Exec) castPointer(st *State, v Val, to *types.Pointer) Val {
	ctx := ex.ctx
	// (*[]byte)(unsafe.Pointer(&reflect.SliceHeader{...})): view of raw memory
	if sl, ok := to.Elem().Underlying().(*types.Slice); ok && v.Ty != nil {
		if src := v.P; src == nil || src.Kind == pObj {
			if n, _ := structOf(origPointee(v)); n != nil && n.Obj().Name() == "SliceHeader" && n.Obj().Pkg().Path() == "reflect" {
				_ = sl
				ex.noteAssumption("unsafe idiom: *(*[]T)(unsafe.Pointer(&reflect.SliceHeader{Data,Len,Cap})) is the window [Data, Data+Len) of raw memory (ghost textmem)")
				return Val{T: v.T, S: sortRef, Ty: to, P: &Ptr{Kind: pRaw, Base: v.T, Elem: to.Elem(), Heap: "sliceheader"}}
			}
		}
	}
	// (*uint32)(unsafe.Pointer(&b[0])): little-endian 4-byte store
	if v.P != nil && v.P.Kind == pElem {
		if bt, ok := to.Elem().Underlying().(*types.Basic); ok && bt.Kind() == types.Uint32 {
			if ctx.sortFor(v.P.Elem) == bvSort(8) {
				ex.noteAssumption("unsafe idiom: *(*uint32)(unsafe.Pointer(&b[i])) = m is a little-endian 4-byte store (amd64/arm64 are LE)")
				np := *v.P
				np.Elem = to.Elem()
				return Val{S: sortRef, Ty: to, P: &Ptr{Kind: pRaw, Base: np.Base, Heap: "le32", Idx: np.Idx, Elem: to.Elem()}}
			}
		}
	}
	// generic: a typed view of the same object
	if v.P == nil || v.P.Kind == pObj || v.P.Kind == pRaw {
		return Val{T: v.T, S: sortRef, Ty: to}
	}
	panic(unsupported(fmt.Sprintf("unsafe cast of interior pointer to %v", to)))
}

// origPointee remembers the static pointee type of a pointer that went through unsafe.Pointer.
func origPointee(v Val) types.Type {
	if v.Orig != nil {
		return v.Orig
	}
	return derefType(v.Ty)
}

func (ex *Exec) execSlice(st *State, x *ssa.Slice) {
	ctx := ex.ctx
	a := ex.val(st, x.X)
	get := func(v ssa.Value, def string) string {
		if v == nil {
			return def
		}
		return convertInt(ctx, ex.val(st, v), types.Typ[types.Int]).T
	}
	switch t := x.X.Type().Underlying().(type) {
	case *types.Slice:
		lo := get(x.Low, bv64(0))
		hi := get(x.High, slLen(a.T))
		mx := get(x.Max, slCap(a.T))
		ex.oblige(st, x, "safe", "slice_bounds", smtAnd(sx("bvule", lo, hi), sx("bvule", hi, mx), sx("bvule", mx, slCap(a.T))), "0 <= low <= high <= max <= cap")
		st.setVal(x, Val{T: mkSlice(slArr(a.T), sx("bvadd", slOff(a.T), lo), sx("bvsub", hi, lo), sx("bvsub", mx, lo)), S: sortSl})
	case *types.Pointer:
		at := t.Elem().Underlying().(*types.Array)
		n := bv64(at.Len())
		lo := get(x.Low, bv64(0))
		hi := get(x.High, n)
		mx := get(x.Max, n)
		if a.P != nil && a.P.Kind != pObj {
			panic(unsupported("slicing an array behind an interior pointer"))
		}
		if !st.knownNonNil(a) {
			ex.oblige(st, x, "safe", "nil_slice", smtNot(sx("=", a.T, "nil")), "array pointer != nil")
		}
		if x.Low != nil || x.High != nil || x.Max != nil {
			ex.oblige(st, x, "safe", "slice_bounds", smtAnd(sx("bvule", lo, hi), sx("bvule", hi, mx), sx("bvule", mx, n)), "0 <= low <= high <= max <= len(array)")
		}
		st.setVal(x, Val{T: mkSlice(a.T, lo, sx("bvsub", hi, lo), sx("bvsub", mx, lo)), S: sortSl})
	case *types.Basic: // string
		f := ctx.declFun("str_sub", []string{sortStr, bvSort(64), bvSort(64)}, sortStr)
		lo := get(x.Low, bv64(0))
		hi := get(x.High, sx("str_len", a.T))
		ex.oblige(st, x, "safe", "slice_bounds", smtAnd(sx("bvule", lo, hi), sx("bvule", hi, sx("str_len", a.T))), "0 <= low <= high <= len(string)")
		r := sx(f, a.T, lo, hi)
		st.setVal(x, Val{T: r, S: sortStr})
		st.assume(sx("=", sx("str_len", st.fr.vals[x].T), sx("bvsub", hi, lo)))
	default:
		panic(unsupported(fmt.Sprintf("slice of %v", x.X.Type())))
	}
}

func (ex *Exec) execTypeAssert(st *State, x *ssa.TypeAssert) []*State {
	ctx := ex.ctx
	a := ex.val(st, x.X)
	var ok, val string
	var vs string
	if it, isIface := x.AssertedType.Underlying().(*types.Interface); isIface {
		pred := ctx.implPred(x.AssertedType)
		ok = smtAnd(smtNot(sx("=", a.T, "iface_nil")), sx(pred, sx("typeof", a.T)))
		if it.NumMethods() == 0 {
			ok = smtNot(sx("=", a.T, "iface_nil"))
		}
		val, vs = a.T, sortIfc
	} else {
		_, unbox := ctx.boxFns(x.AssertedType)
		tc := ctx.typeConst(x.AssertedType)
		ok = smtAnd(smtNot(sx("=", a.T, "iface_nil")), sx("=", sx("typeof", a.T), tc))
		val, vs = sx(unbox, a.T), ctx.sortFor(x.AssertedType)
	}
	if x.CommaOk {
		okn := st.define("ok", sortBool, ok)
		z := zeroTerm(ctx, x.AssertedType)
		v := Val{T: st.define("ta", vs, smtIte(okn, val, z.T)), S: vs, Ty: x.AssertedType}
		st.fr.vals[x] = Val{Tup: []Val{v, {T: okn, S: sortBool, Ty: types.Typ[types.Bool]}}}
		return []*State{st}
	}
	ex.oblige(st, x, "safe", "type_assert", ok, "dynamic type matches the asserted type")
	st.setVal(x, Val{T: val, S: vs, Ty: x.AssertedType})
	return []*State{st}
}
