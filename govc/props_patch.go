package main

func init() {
	registerProperty(&PropertyConfig{ID: "C02", Explain: "representation invariant of guards/patches preserved by every operation; Unpatch writes back exactly the captured bytes; frames restrict writes to the entry window"})
	registerProperty(&PropertyConfig{ID: "C01", Explain: "mechanism part: the entry window holds nop; movabs rdx,&funcvalue; jmp [rdx] with the func-value address (not the code pointer) of the replacement kept reachable through the patches table"})
	registerProperty(&PropertyConfig{ID: "C11", Explain: "ghost lockset: every access to the patch table and every write of an entry window happens with patchesLock held; text access under memoryAccessLock; PROT_EXEC never dropped"})
	registerProperty(&PropertyConfig{ID: "C13", Replay: replayC13, Explain: "configuration checks precede every write: exceptional postconditions 'error/panic => text unchanged'; error-chain typing"})
}
