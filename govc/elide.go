package main

// elide.go — branches that only guard logging are skipped (DESIGN §2.8: logging is dropped).
//
// An If is elided when the region between it and its immediate post-dominator contains nothing
// but effect-free instructions (pure calls into logging/formatting packages or functions whose
// contract says `pure`, address arithmetic, loads, stores into arrays allocated inside the
// region), defines no value used outside the region, and the join block has no phi.  The region
// is then not executed at all: no state change, no obligations (its own panics are NOT checked;
// this is listed as an assumption).  Functions with `safety` = "logging" keep such regions.

import (
	"go/types"

	"golang.org/x/tools/go/ssa"
)

type elideInfo struct {
	join map[*ssa.BasicBlock]*ssa.BasicBlock // If block -> join block when the region may be skipped
}

func (ex *Exec) computeElision(fn *ssa.Function) *elideInfo {
	ei := &elideInfo{join: map[*ssa.BasicBlock]*ssa.BasicBlock{}}
	n := len(fn.Blocks)
	if n == 0 {
		return ei
	}
	// post-dominator sets (bitsets as []bool), virtual exit = index n
	pd := make([][]bool, n+1)
	for i := range pd {
		pd[i] = make([]bool, n+1)
		for j := range pd[i] {
			pd[i][j] = true
		}
	}
	for j := range pd[n] {
		pd[n][j] = j == n
	}
	succs := func(b *ssa.BasicBlock) []int {
		if len(b.Succs) == 0 {
			return []int{n}
		}
		var out []int
		for _, s := range b.Succs {
			out = append(out, s.Index)
		}
		return out
	}
	for changed := true; changed; {
		changed = false
		for i := n - 1; i >= 0; i-- {
			b := fn.Blocks[i]
			nw := make([]bool, n+1)
			for j := range nw {
				nw[j] = true
			}
			for _, s := range succs(b) {
				for j := range nw {
					nw[j] = nw[j] && pd[s][j]
				}
			}
			nw[i] = true
			for j := range nw {
				if nw[j] != pd[i][j] {
					changed = true
				}
			}
			pd[i] = nw
		}
	}
	for _, b := range fn.Blocks {
		if len(b.Instrs) == 0 {
			continue
		}
		if _, ok := b.Instrs[len(b.Instrs)-1].(*ssa.If); !ok {
			continue
		}
		// immediate post-dominator: the strict post-dominator that is post-dominated by all other strict post-dominators
		var ipd *ssa.BasicBlock
		for j := 0; j < n; j++ {
			if j == b.Index || !pd[b.Index][j] {
				continue
			}
			ok := true
			for k := 0; k < n; k++ {
				if k == b.Index || k == j || !pd[b.Index][k] {
					continue
				}
				if !pd[j][k] {
					ok = false
					break
				}
			}
			if ok {
				ipd = fn.Blocks[j]
				break
			}
		}
		if ipd == nil {
			continue
		}
		// region = blocks reachable from b's successors without passing ipd
		region := map[*ssa.BasicBlock]bool{}
		stack := append([]*ssa.BasicBlock(nil), b.Succs...)
		okRegion := true
		for len(stack) > 0 {
			x := stack[len(stack)-1]
			stack = stack[:len(stack)-1]
			if x == ipd || region[x] {
				continue
			}
			if x == b {
				okRegion = false // loop back
				break
			}
			region[x] = true
			stack = append(stack, x.Succs...)
		}
		if !okRegion || len(region) == 0 {
			continue
		}
		if len(ipd.Instrs) > 0 {
			if _, isPhi := ipd.Instrs[0].(*ssa.Phi); isPhi {
				continue
			}
		}
		if ex.regionEffectFree(fn, region) {
			ei.join[b] = ipd
		}
	}
	return ei
}

func (ex *Exec) regionEffectFree(fn *ssa.Function, region map[*ssa.BasicBlock]bool) bool {
	localAllocs := map[ssa.Value]bool{}
	defined := map[ssa.Value]bool{}
	sawLogging := false
	for b := range region {
		for _, in := range b.Instrs {
			if v, ok := in.(ssa.Value); ok {
				defined[v] = true
			}
			if a, ok := in.(*ssa.Alloc); ok {
				localAllocs[a] = true
			}
		}
	}
	rootAlloc := func(v ssa.Value) ssa.Value {
		for {
			switch x := v.(type) {
			case *ssa.IndexAddr:
				v = x.X
			case *ssa.FieldAddr:
				v = x.X
			default:
				return v
			}
		}
	}
	for b := range region {
		for _, in := range b.Instrs {
			switch x := in.(type) {
			case *ssa.DebugRef, *ssa.BinOp, *ssa.Convert, *ssa.ChangeType, *ssa.ChangeInterface, *ssa.MakeInterface, *ssa.Alloc,
				*ssa.IndexAddr, *ssa.FieldAddr, *ssa.Slice, *ssa.Extract, *ssa.Field, *ssa.Index, *ssa.Jump, *ssa.If, *ssa.Phi, *ssa.Lookup, *ssa.TypeAssert:
				if ta, ok := in.(*ssa.TypeAssert); ok && !ta.CommaOk {
					return false
				}
			case *ssa.UnOp:
			case *ssa.Store:
				if !localAllocs[rootAlloc(x.Addr)] {
					return false
				}
			case *ssa.Call:
				if bi, ok := x.Call.Value.(*ssa.Builtin); ok && !x.Call.IsInvoke() {
					if bi.Name() != "len" && bi.Name() != "cap" {
						return false
					}
					continue
				}
				ci := ex.callee(nil, &x.Call)
				if ci == nil {
					return false
				}
				if con, ok := ex.db.Contracts[ci.key]; ok {
					if !con.Pure && !(con.HasAssign && len(con.Assigns) == 0 && !con.AssignsEv) {
						return false
					}
					if len(con.clauses("panics_only_if")) > 0 || con.MayPanic {
						return false
					}
				} else if !(ex.isPurePkg(ci.pkg) || ex.purePk[ci.key]) {
					return false
				}
				if ci.pkg != nil && (ci.pkg.Path() == repoMod+"/internal/logger" || ci.pkg.Path() == "fmt") {
					sawLogging = true
				}
				if ci.fn != nil && (ci.fn.Name() == "PrintInst" || ci.fn.Name() == "PrintInstf") {
					sawLogging = true
				}
			default:
				return false
			}
		}
	}
	if !sawLogging {
		return false
	}
	// no value defined in the region may be used outside it
	for _, b := range fn.Blocks {
		if region[b] {
			continue
		}
		for _, in := range b.Instrs {
			for _, op := range in.Operands(nil) {
				if *op != nil && defined[*op] {
					return false
				}
			}
		}
	}
	_ = types.Typ
	return true
}
