package main

// spec.go — the contract language: scanner, Pratt parser, contract-file parser.
//
// Contracts live in comment-only Go files (`//go:build verif`) in /repo, one
// per package, and in /verif/spec/*.spec for code outside /repo (assumed
// contracts).  Every line of interest starts with `//@`.

import (
	"fmt"
	"os"
	"path/filepath"
	"sort"
	"strings"
	"unicode"
)

// ---------------------------------------------------------------------------
// expression AST

type Node struct {
	Kind  string // "lit","str","ident","bin","un","call","index","slice","sel","quant","old"
	Op    string
	Name  string
	Args  []*Node
	Binds []Bind // quant
	Pos   int
}

type Bind struct {
	Name string
	Type string // type expression text
}

func (n *Node) String() string {
	if n == nil {
		return "<nil>"
	}
	switch n.Kind {
	case "lit", "ident":
		return n.Name
	case "str":
		return fmt.Sprintf("%q", n.Name)
	case "bin":
		return "(" + n.Args[0].String() + " " + n.Op + " " + n.Args[1].String() + ")"
	case "un":
		return n.Op + n.Args[0].String()
	case "call":
		var as []string
		for _, a := range n.Args {
			as = append(as, a.String())
		}
		return n.Name + "(" + strings.Join(as, ", ") + ")"
	case "index":
		return n.Args[0].String() + "[" + n.Args[1].String() + "]"
	case "slice":
		s := n.Args[0].String() + "["
		if n.Args[1] != nil {
			s += n.Args[1].String()
		}
		s += ":"
		if n.Args[2] != nil {
			s += n.Args[2].String()
		}
		return s + "]"
	case "sel":
		return n.Args[0].String() + "." + n.Name
	case "quant":
		var bs []string
		for _, b := range n.Binds {
			bs = append(bs, b.Name+" "+b.Type)
		}
		return n.Op + " " + strings.Join(bs, ", ") + " :: " + n.Args[0].String()
	}
	return "?"
}

// ---------------------------------------------------------------------------
// scanner

type tok struct {
	kind string // "id","num","str","op","eof"
	text string
	pos  int
}

var specOps = []string{
	"<==>", "==>", "&&", "||", "==", "!=", "<=", ">=", "<<", ">>", "&^", "::", "..",
	"+", "-", "*", "/", "%", "&", "|", "^", "<", ">", "!", "(", ")", "[", "]", ",", ".", ":", "{", "}",
}

func scanSpec(s string) ([]tok, error) {
	var ts []tok
	i := 0
	for i < len(s) {
		c := rune(s[i])
		if unicode.IsSpace(c) {
			i++
			continue
		}
		if unicode.IsLetter(c) || c == '_' || c == '$' {
			j := i
			for j < len(s) && (unicode.IsLetter(rune(s[j])) || unicode.IsDigit(rune(s[j])) || s[j] == '_' || s[j] == '$') {
				j++
			}
			ts = append(ts, tok{"id", s[i:j], i})
			i = j
			continue
		}
		if unicode.IsDigit(c) {
			j := i
			for j < len(s) && (unicode.IsDigit(rune(s[j])) || unicode.IsLetter(rune(s[j])) || s[j] == '_') {
				j++
			}
			ts = append(ts, tok{"num", strings.ReplaceAll(s[i:j], "_", ""), i})
			i = j
			continue
		}
		if c == '"' {
			j := i + 1
			for j < len(s) && s[j] != '"' {
				if s[j] == '\\' {
					j++
				}
				j++
			}
			if j >= len(s) {
				return nil, fmt.Errorf("unterminated string at %d", i)
			}
			ts = append(ts, tok{"str", s[i+1 : j], i})
			i = j + 1
			continue
		}
		matched := false
		for _, op := range specOps {
			if strings.HasPrefix(s[i:], op) {
				ts = append(ts, tok{"op", op, i})
				i += len(op)
				matched = true
				break
			}
		}
		if !matched {
			return nil, fmt.Errorf("unexpected character %q at %d in %q", c, i, s)
		}
	}
	ts = append(ts, tok{"eof", "", len(s)})
	return ts, nil
}

// ---------------------------------------------------------------------------
// parser

type specParser struct {
	ts  []tok
	p   int
	src string
}

func parseSpecExpr(s string) (*Node, error) {
	ts, err := scanSpec(s)
	if err != nil {
		return nil, err
	}
	sp := &specParser{ts: ts, src: s}
	n, err := sp.expr(0)
	if err != nil {
		return nil, err
	}
	if sp.peek().kind != "eof" {
		return nil, fmt.Errorf("trailing input at %d in %q", sp.peek().pos, s)
	}
	return n, nil
}

func (sp *specParser) peek() tok { return sp.ts[sp.p] }
func (sp *specParser) next() tok { t := sp.ts[sp.p]; sp.p++; return t }
func (sp *specParser) accept(op string) bool {
	if t := sp.peek(); t.kind == "op" && t.text == op {
		sp.p++
		return true
	}
	return false
}
func (sp *specParser) expect(op string) error {
	if !sp.accept(op) {
		return fmt.Errorf("expected %q at %d in %q", op, sp.peek().pos, sp.src)
	}
	return nil
}

var binPrec = map[string]int{
	"<==>": 1, "==>": 2, "||": 3, "&&": 4,
	"==": 5, "!=": 5, "<": 5, "<=": 5, ">": 5, ">=": 5,
	"+": 6, "-": 6, "|": 6, "^": 6,
	"*": 7, "/": 7, "%": 7, "<<": 7, ">>": 7, "&": 7, "&^": 7,
}

func (sp *specParser) expr(minPrec int) (*Node, error) {
	t := sp.peek()
	if t.kind == "id" && (t.text == "forall" || t.text == "exists") {
		sp.next()
		var binds []Bind
		for {
			nm := sp.next()
			if nm.kind != "id" {
				return nil, fmt.Errorf("binder name expected at %d in %q", nm.pos, sp.src)
			}
			ty, err := sp.typeText()
			if err != nil {
				return nil, err
			}
			binds = append(binds, Bind{nm.text, ty})
			if !sp.accept(",") {
				break
			}
		}
		if err := sp.expect("::"); err != nil {
			return nil, err
		}
		body, err := sp.expr(0)
		if err != nil {
			return nil, err
		}
		return &Node{Kind: "quant", Op: t.text, Binds: binds, Args: []*Node{body}, Pos: t.pos}, nil
	}
	lhs, err := sp.unary()
	if err != nil {
		return nil, err
	}
	for {
		t := sp.peek()
		if t.kind != "op" {
			break
		}
		prec, ok := binPrec[t.text]
		if !ok || prec < minPrec {
			break
		}
		sp.next()
		var rhs *Node
		if t.text == "==>" {
			rhs, err = sp.expr(prec) // right associative
		} else {
			rhs, err = sp.expr(prec + 1)
		}
		if err != nil {
			return nil, err
		}
		lhs = &Node{Kind: "bin", Op: t.text, Args: []*Node{lhs, rhs}, Pos: t.pos}
	}
	return lhs, nil
}

// typeText consumes a type expression and returns its text.
func (sp *specParser) typeText() (string, error) {
	var b strings.Builder
	for {
		t := sp.peek()
		switch {
		case t.kind == "op" && (t.text == "*" || t.text == "[" || t.text == "]" || t.text == "."):
			b.WriteString(t.text)
			sp.next()
		case t.kind == "id":
			b.WriteString(t.text)
			sp.next()
			if t.text == "interface" && sp.peek().kind == "op" && sp.peek().text == "{" {
				sp.next()
				sp.next()
				b.WriteString("{}")
				return b.String(), nil
			}
			if n := sp.peek(); !(n.kind == "op" && (n.text == "." || n.text == "[")) {
				return b.String(), nil
			}
			if n := sp.peek(); n.text == "[" { // map[K]V
				if t.text != "map" {
					return b.String(), nil
				}
			}
		case t.kind == "num":
			b.WriteString(t.text)
			sp.next()
		default:
			if b.Len() == 0 {
				return "", fmt.Errorf("type expected at %d in %q", t.pos, sp.src)
			}
			return b.String(), nil
		}
	}
}

func (sp *specParser) unary() (*Node, error) {
	t := sp.peek()
	if t.kind == "op" && (t.text == "!" || t.text == "-" || t.text == "^" || t.text == "*") {
		sp.next()
		a, err := sp.unary()
		if err != nil {
			return nil, err
		}
		return &Node{Kind: "un", Op: t.text, Args: []*Node{a}, Pos: t.pos}, nil
	}
	return sp.postfix()
}

func (sp *specParser) postfix() (*Node, error) {
	n, err := sp.primary()
	if err != nil {
		return nil, err
	}
	for {
		t := sp.peek()
		if t.kind != "op" {
			return n, nil
		}
		switch t.text {
		case "(":
			// call: only on identifiers / selectors / type expressions
			name := ""
			switch n.Kind {
			case "ident":
				name = n.Name
			case "sel":
				name = n.String()
			default:
				return n, nil
			}
			sp.next()
			var args []*Node
			if !sp.accept(")") {
				for {
					a, err := sp.expr(0)
					if err != nil {
						return nil, err
					}
					args = append(args, a)
					if sp.accept(")") {
						break
					}
					if err := sp.expect(","); err != nil {
						return nil, err
					}
				}
			}
			n = &Node{Kind: "call", Name: name, Args: args, Pos: t.pos}
		case "[":
			sp.next()
			var lo, hi *Node
			if !(sp.peek().kind == "op" && sp.peek().text == ":") {
				lo, err = sp.expr(0)
				if err != nil {
					return nil, err
				}
			}
			if sp.accept(":") {
				if !(sp.peek().kind == "op" && sp.peek().text == "]") {
					hi, err = sp.expr(0)
					if err != nil {
						return nil, err
					}
				}
				if err := sp.expect("]"); err != nil {
					return nil, err
				}
				n = &Node{Kind: "slice", Args: []*Node{n, lo, hi}, Pos: t.pos}
			} else {
				if err := sp.expect("]"); err != nil {
					return nil, err
				}
				n = &Node{Kind: "index", Args: []*Node{n, lo}, Pos: t.pos}
			}
		case ".":
			sp.next()
			f := sp.next()
			if f.kind != "id" {
				return nil, fmt.Errorf("field name expected at %d in %q", f.pos, sp.src)
			}
			n = &Node{Kind: "sel", Name: f.text, Args: []*Node{n}, Pos: t.pos}
		default:
			return n, nil
		}
	}
}

func (sp *specParser) primary() (*Node, error) {
	t := sp.next()
	switch t.kind {
	case "num":
		return &Node{Kind: "lit", Name: t.text, Pos: t.pos}, nil
	case "str":
		return &Node{Kind: "str", Name: t.text, Pos: t.pos}, nil
	case "id":
		return &Node{Kind: "ident", Name: t.text, Pos: t.pos}, nil
	case "op":
		if t.text == "(" {
			// parenthesised expression, or a parenthesised type used as a conversion: (*T)(x)
			save := sp.p
			if sp.peek().kind == "op" && sp.peek().text == "*" {
				ty, err := sp.typeText()
				if err == nil && sp.accept(")") && sp.peek().kind == "op" && sp.peek().text == "(" {
					sp.next()
					a, err := sp.expr(0)
					if err != nil {
						return nil, err
					}
					if err := sp.expect(")"); err != nil {
						return nil, err
					}
					return &Node{Kind: "call", Name: ty, Args: []*Node{a}, Pos: t.pos}, nil
				}
				sp.p = save
			}
			n, err := sp.expr(0)
			if err != nil {
				return nil, err
			}
			if err := sp.expect(")"); err != nil {
				return nil, err
			}
			return n, nil
		}
		if t.text == "[" { // []T(x) conversion is not supported; report
			return nil, fmt.Errorf("unexpected '[' at %d in %q", t.pos, sp.src)
		}
	}
	return nil, fmt.Errorf("unexpected token %q at %d in %q", t.text, t.pos, sp.src)
}

// ---------------------------------------------------------------------------
// contracts

type Clause struct {
	Kind   string // requires, ensures, panics_only_if, ensures_on_panic, invariant, decreases, assume
	Label  string
	Props  []string // property ids this clause serves (empty = function default)
	Expr   *Node
	Src    string
	Loop   int    // invariant/decreases: loop ordinal
	Lhs    *Node  // ghost_set target
	Callee string // call_requires: short name of the callee
}

type AssignItem struct {
	Src  string
	Expr *Node // a location expression: x.f, s[lo:hi], *p, global; "nothing"/"everything" handled separately
	Upto int   // s[lo:hi] upto N: the range has at most N elements (quantifier-free havoc)
}

type Contract struct {
	Key             string // full name as types.Func.FullName() gives it (or Outer$N for closures)
	Pkg             string // package path the contract file belongs to ("" for extern specs)
	File            string
	Extern          bool // body not in /repo: assumed
	Trusted         bool // body in /repo but not verified (stated assumption)
	Props           []string
	Clauses         []*Clause
	Assigns         []AssignItem
	AssignsEv       bool // assigns everything (default for uncontracted)
	HasAssign       bool
	Pure            bool   // no heap effects, result is a function of args (and heap)
	Safety          string // "all" (default), "off", "nonil"
	Fresh           bool   // result is a freshly allocated reference / slice backing
	MayPanic        bool   // extern: may panic for reasons outside the model (no clause)
	FuncValuePanics bool   // calls through func values fork a panic path (C19)
	Dispatch        bool   // interface method: at a call site fork over the implementations under contract in /repo
	Used            bool
}

func (c *Contract) clauses(kind string) []*Clause {
	var out []*Clause
	for _, cl := range c.Clauses {
		if cl.Kind == kind {
			out = append(out, cl)
		}
	}
	return out
}

type SpecFunc struct {
	Name   string
	Params []Bind
	Ret    string
	Body   *Node // nil = uninterpreted
	Src    string
	File   string
	Pkg    string
}

type GhostVar struct {
	Name string
	Type string
	Pkg  string
}

type SpecDB struct {
	Contracts map[string]*Contract
	Funcs     map[string]*SpecFunc
	Ghosts    map[string]*GhostVar
	Axioms    []*Clause // global axioms over uninterpreted spec functions (trusted)
	Files     []string
}

func newSpecDB() *SpecDB {
	return &SpecDB{Contracts: map[string]*Contract{}, Funcs: map[string]*SpecFunc{}, Ghosts: map[string]*GhostVar{}}
}

// loadSpecFile parses one contract file.  pkgPath is the import path the
// short function names are relative to ("" for extern spec files, whose
// function keys are written in full).
func (db *SpecDB) loadSpecFile(file, pkgPath string) error {
	data, err := os.ReadFile(file)
	if err != nil {
		return err
	}
	db.Files = append(db.Files, file)
	var cur *Contract
	lines := strings.Split(string(data), "\n")
	// join continuation lines: a `//@` line whose content starts with `|`
	var items []string
	var itemLine []int
	for ln, l := range lines {
		l = strings.TrimSpace(l)
		if !strings.HasPrefix(l, "//@") {
			continue
		}
		body := strings.TrimSpace(l[3:])
		if body == "" || strings.HasPrefix(body, "#") {
			continue
		}
		if strings.HasPrefix(body, "|") && len(items) > 0 {
			items[len(items)-1] += " " + strings.TrimSpace(body[1:])
			continue
		}
		items = append(items, body)
		itemLine = append(itemLine, ln+1)
	}
	for idx, it := range items {
		where := fmt.Sprintf("%s:%d", filepath.Base(file), itemLine[idx])
		word, rest := splitWord(it)
		switch word {
		case "func", "extern", "trusted":
			c := &Contract{Pkg: pkgPath, File: file, Safety: "all"}
			if word == "extern" {
				c.Extern = true
				w2, r2 := splitWord(rest)
				if w2 == "func" {
					rest = r2
				}
			}
			if word == "trusted" {
				c.Trusted = true
				w2, r2 := splitWord(rest)
				if w2 == "func" {
					rest = r2
				}
			}
			key, err := parseFuncKey(rest, pkgPath)
			if err != nil {
				return fmt.Errorf("%s: %v", where, err)
			}
			c.Key = key
			if _, dup := db.Contracts[key]; dup {
				return fmt.Errorf("%s: duplicate contract for %s", where, key)
			}
			db.Contracts[key] = c
			cur = c
		case "pure", "uninterp":
			if word == "pure" && strings.TrimSpace(rest) == "" && cur != nil {
				if err := parseClause(cur, word, rest); err != nil {
					return fmt.Errorf("%s: %v", where, err)
				}
				continue
			}
			// spec function: pure func name(a T, b U) R = expr
			w2, r2 := splitWord(rest)
			if w2 == "func" {
				rest = r2
			}
			sf, err := parseSpecFunc(rest, word == "uninterp")
			if err != nil {
				return fmt.Errorf("%s: %v", where, err)
			}
			sf.File = file
			sf.Pkg = pkgPath
			if _, dup := db.Funcs[sf.Name]; dup {
				return fmt.Errorf("%s: duplicate spec function %s", where, sf.Name)
			}
			db.Funcs[sf.Name] = sf
			cur = nil
		case "ghost":
			w2, r2 := splitWord(rest)
			if w2 != "var" {
				return fmt.Errorf("%s: expected 'ghost var'", where)
			}
			nm, ty := splitWord(r2)
			db.Ghosts[nm] = &GhostVar{Name: nm, Type: strings.TrimSpace(ty), Pkg: pkgPath}
			cur = nil
		case "axiom":
			label, src := splitLabel(rest)
			e, err := parseSpecExpr(src)
			if err != nil {
				return fmt.Errorf("%s: %v", where, err)
			}
			db.Axioms = append(db.Axioms, &Clause{Kind: "axiom", Label: label, Expr: e, Src: src})
			cur = nil
		default:
			if cur == nil {
				return fmt.Errorf("%s: clause %q outside a function contract", where, word)
			}
			if err := parseClause(cur, word, rest); err != nil {
				return fmt.Errorf("%s: %v", where, err)
			}
		}
	}
	return nil
}

func splitWord(s string) (string, string) {
	s = strings.TrimSpace(s)
	i := strings.IndexFunc(s, func(r rune) bool { return unicode.IsSpace(r) })
	if i < 0 {
		return s, ""
	}
	return s[:i], strings.TrimSpace(s[i:])
}

// splitLabel splits "label: expr"; the label is an identifier immediately
// followed by ':' (and not '::').
func splitLabel(s string) (string, string) {
	s = strings.TrimSpace(s)
	for i, c := range s {
		if unicode.IsLetter(c) || unicode.IsDigit(c) || c == '_' {
			continue
		}
		if c == ':' && i > 0 && !strings.HasPrefix(s[i:], "::") {
			return s[:i], strings.TrimSpace(s[i+1:])
		}
		break
	}
	return "", s
}

// parseFuncKey turns `relative(...)`, `(g *Guard) Apply()`, `(*Guard).Apply`,
// `Guard.Apply`, `pkg/path.Func`, `(reflect.Value).Len`, `outer$1` into the
// key used by types.Func.FullName().
func parseFuncKey(s, pkgPath string) (string, error) {
	s = strings.TrimSpace(s)
	qual := func(tn string) string {
		// qualify a type or func name with the package path if it has none
		if strings.Contains(tn, ".") || pkgPath == "" {
			return tn
		}
		return pkgPath + "." + tn
	}
	if strings.HasPrefix(s, "(") {
		end := strings.Index(s, ")")
		if end < 0 {
			return "", fmt.Errorf("bad receiver in %q", s)
		}
		recv := strings.TrimSpace(s[1:end])
		rest := strings.TrimSpace(s[end+1:])
		rest = strings.TrimPrefix(rest, ".")
		// receiver may be "g *Guard" or "*Guard" or "reflect.Value"
		if f := strings.Fields(recv); len(f) == 2 {
			recv = f[1]
		}
		ptr := strings.HasPrefix(recv, "*")
		recv = strings.TrimPrefix(recv, "*")
		name := rest
		if i := strings.IndexAny(name, "( "); i >= 0 {
			name = name[:i]
		}
		if name == "" {
			return "", fmt.Errorf("missing method name in %q", s)
		}
		if ptr {
			return "(*" + qual(recv) + ")." + name, nil
		}
		return "(" + qual(recv) + ")." + name, nil
	}
	name := s
	if i := strings.IndexAny(name, "( "); i >= 0 {
		name = name[:i]
	}
	if name == "" {
		return "", fmt.Errorf("missing function name in %q", s)
	}
	// T.Method shorthand (value receiver) when T is unqualified: "Guard.Apply"
	return qual(name), nil
}

func parseSpecFunc(s string, uninterp bool) (*SpecFunc, error) {
	open := strings.Index(s, "(")
	if open < 0 {
		return nil, fmt.Errorf("bad spec function %q", s)
	}
	name := strings.TrimSpace(s[:open])
	depth := 0
	closeIdx := -1
	for i := open; i < len(s); i++ {
		if s[i] == '(' {
			depth++
		} else if s[i] == ')' {
			depth--
			if depth == 0 {
				closeIdx = i
				break
			}
		}
	}
	if closeIdx < 0 {
		return nil, fmt.Errorf("bad spec function %q", s)
	}
	sf := &SpecFunc{Name: name, Src: s}
	ps := strings.TrimSpace(s[open+1 : closeIdx])
	if ps != "" {
		for _, p := range strings.Split(ps, ",") {
			nm, ty := splitWord(p)
			if ty == "" {
				return nil, fmt.Errorf("parameter %q needs a type in %q", p, s)
			}
			sf.Params = append(sf.Params, Bind{nm, ty})
		}
	}
	rest := strings.TrimSpace(s[closeIdx+1:])
	if uninterp {
		sf.Ret = rest
		return sf, nil
	}
	eq := strings.Index(rest, "=")
	if eq < 0 {
		return nil, fmt.Errorf("spec function %q needs '= body'", s)
	}
	sf.Ret = strings.TrimSpace(rest[:eq])
	body, err := parseSpecExpr(rest[eq+1:])
	if err != nil {
		return nil, err
	}
	sf.Body = body
	return sf, nil
}

func parseClause(c *Contract, word, rest string) error {
	// optional [C01,C02] tag directly after the keyword
	var props []string
	if i := strings.Index(word, "["); i >= 0 && strings.HasSuffix(word, "]") {
		props = strings.Split(word[i+1:len(word)-1], ",")
		word = word[:i]
	}
	switch word {
	case "props":
		for _, p := range strings.FieldsFunc(rest, func(r rune) bool { return r == ',' || unicode.IsSpace(r) }) {
			c.Props = append(c.Props, p)
		}
	case "safety":
		c.Safety = strings.TrimSpace(rest)
	case "pure":
		c.Pure = true
		c.HasAssign = true
	case "fresh":
		c.Fresh = true
	case "dispatch":
		c.Dispatch = true
	case "may_panic":
		c.MayPanic = true
	case "funcvalue_may_panic":
		c.FuncValuePanics = true
	case "assigns":
		c.HasAssign = true
		for _, it := range splitTop(rest, ',') {
			it = strings.TrimSpace(it)
			switch it {
			case "nothing", "":
			case "everything":
				c.AssignsEv = true
			default:
				upto := 0
				if i := strings.Index(it, " upto "); i >= 0 {
					fmt.Sscanf(strings.TrimSpace(it[i+6:]), "%d", &upto)
					it = strings.TrimSpace(it[:i])
				}
				e, err := parseSpecExpr(it)
				if err != nil {
					return err
				}
				c.Assigns = append(c.Assigns, AssignItem{Src: it, Expr: e, Upto: upto})
			}
		}
	case "call_requires":
		// call_requires <callee> label: expr — an obligation of THIS function at each of its calls to <callee>,
		// evaluated over this function's variables and arg0..argN of the call
		callee, r2 := splitWord(rest)
		label, src := splitLabel(r2)
		e, err := parseSpecExpr(src)
		if err != nil {
			return err
		}
		c.Clauses = append(c.Clauses, &Clause{Kind: "call_requires", Label: label, Props: props, Expr: e, Src: src, Callee: callee})
	case "ghost_set":
		// ghost_set <location> = <expr> : ghost assignment performed at every normal return
		eq := strings.Index(rest, " = ")
		if eq < 0 {
			return fmt.Errorf("ghost_set needs 'location = expr'")
		}
		lhs, err := parseSpecExpr(rest[:eq])
		if err != nil {
			return err
		}
		rhs, err := parseSpecExpr(rest[eq+3:])
		if err != nil {
			return err
		}
		c.Clauses = append(c.Clauses, &Clause{Kind: "ghost_set", Label: fmt.Sprintf("ghost%d", len(c.Clauses)), Expr: rhs, Lhs: lhs, Src: rest})
	case "requires", "ensures", "ensures_local", "panics_only_if", "ensures_on_panic", "invariant", "decreases", "assume", "step", "enter":
		loop := 0
		if word == "invariant" || word == "decreases" || word == "step" || word == "enter" {
			w2, r2 := splitWord(rest)
			if w2 == "loop" {
				var n int
				w3, r3 := splitWord(r2)
				if _, err := fmt.Sscanf(w3, "%d", &n); err != nil {
					return fmt.Errorf("bad loop ordinal %q", w3)
				}
				loop = n
				rest = r3
			}
		}
		label, src := splitLabel(rest)
		if label == "" {
			label = fmt.Sprintf("%s%d", word, len(c.Clauses))
		}
		e, err := parseSpecExpr(src)
		if err != nil {
			return err
		}
		c.Clauses = append(c.Clauses, &Clause{Kind: word, Label: label, Props: props, Expr: e, Src: src, Loop: loop})
	default:
		return fmt.Errorf("unknown clause keyword %q", word)
	}
	return nil
}

func splitTop(s string, sep rune) []string {
	var out []string
	depth := 0
	start := 0
	for i, c := range s {
		switch c {
		case '(', '[':
			depth++
		case ')', ']':
			depth--
		default:
			if c == sep && depth == 0 {
				out = append(out, s[start:i])
				start = i + 1
			}
		}
	}
	out = append(out, s[start:])
	return out
}

func sortedKeys[V any](m map[string]V) []string {
	ks := make([]string, 0, len(m))
	for k := range m {
		ks = append(ks, k)
	}
	sort.Strings(ks)
	return ks
}
