package main

func init() {
	registerProperty(&PropertyConfig{
		ID:      "C14",
		Explain: "frame and page-permission contracts on the text writers: a write changes exactly [addr,addr+len) of ghost textmem, every covered page ends R+X, no other page's protection changes, PROT_EXEC is never dropped (call-site obligation on mprotect), too-short targets are refused",
		Aux:     runFuncSizeAux,
		Trusted: []string{"page size 4096", "mprotect(RWX) on text succeeds (otherwise the unclaimed mwrite_prot.go fallback runs)", "RawAccess (unsafe SliceHeader idiom) is the window of raw memory", "GetFuncSize's scanned extent vs. real linker layout: NOT decided here (fact about linker output)"},
	})
}
