package main

// verify.go — per-function driver: path exploration, loop cuts, exits, obligations.

import (
	"fmt"
	"go/ast"
	"go/types"
	"sort"
	"strings"

	"golang.org/x/tools/go/ssa"
)

type funcRun struct {
	fn        *ssa.Function
	con       *Contract
	key       string
	short     string
	paths     int
	maxPaths  int
	exits     int
	params    map[string]Val
	inputs    map[string]string
	loopEnv   map[int]map[string]nameBinding
	writes    map[int]*loopWrites
	aborted   string
	backedges map[int]int
	fvAddr    map[string]Val // free variables of a closure (addresses of the captured variables)
}

const maxPathsPerFunc = 6000

func (ex *Exec) newObl(st *State, kind, name, goal, clause string, props []string) *Obligation {
	fr := ex.cur
	o := &Obligation{
		Name: fr.short + "#" + kind + ":" + name, Func: fr.short, Kind: kind, Label: name, Props: props, Clause: clause,
		Trace: strings.Join(st.trace, ">"),
	}
	if len(st.notes) > 0 {
		o.Trace += " [" + strings.Join(st.notes, "; ") + "]"
	}
	o.lines = append([]string(nil), st.lines...)
	o.goal = goal
	o.Inputs = fr.inputs
	o.funcKey = fr.key
	o.inputVals = fr.params
	if st.fr != nil {
		o.extraVars = map[string]Val{}
		for k, nb := range st.topFrame().names {
			if !nb.isAddr && nb.v.T != "" {
				o.extraVars[k] = nb.v
			}
		}
	}
	ex.mu.Lock()
	ex.obls = append(ex.obls, o)
	ex.mu.Unlock()
	return o
}

// oblige emits an implicit safety obligation and then assumes it.
func (ex *Exec) oblige(st *State, in ssa.Instruction, kind, label, goal, clause string) {
	con := ex.cur.con
	if goal == "true" {
		return
	}
	skip := con.Safety == "off" || (con.Safety == "nonil" && strings.HasPrefix(label, "nil_"))
	if st.fr != nil && !st.fr.top {
		// inside an inlined closure: name by closure
		label = st.fr.fn.Name() + "." + label
	}
	if !skip {
		site := ""
		if st.fr != nil {
			site = st.fr.ord[in]
		}
		ex.newObl(st, kind, label+"@"+site, goal, clause, con.Props)
	}
	st.assume(goal)
}

func (ex *Exec) obligeNamed(st *State, in ssa.Instruction, kind, name, goal, clause string, props []string) {
	if goal != "true" {
		if len(props) == 0 {
			props = ex.cur.con.Props
		}
		ex.newObl(st, kind, name, goal, clause, props)
	}
	st.assume(goal)
}

// ---------------------------------------------------------------------------

func (ex *Exec) verifyFunc(fn *ssa.Function, con *Contract) {
	run := &funcRun{fn: fn, con: con, key: con.Key, short: shortFuncName(con.Key), maxPaths: maxPathsPerFunc,
		params: map[string]Val{}, inputs: map[string]string{}, loopEnv: map[int]map[string]nameBinding{}, writes: map[int]*loopWrites{}}
	ex.cur = run
	defer func() {
		if r := recover(); r != nil {
			if u, ok := r.(unsupportedErr); ok {
				ex.issue("%s: UNDECIDED(unsupported: %s)", run.short, u.msg)
				return
			}
			panic(r)
		}
	}()
	if fn.Blocks == nil {
		ex.issue("%s: no body (assembly/external); contract is assumed", run.short)
		return
	}
	st := &State{ex: ex, heap: map[string]string{}, entry: map[string]string{}, visited: map[int]int{}}
	fr := &Frame{fn: fn, vals: map[ssa.Value]Val{}, loops: findLoops(fn), top: true, ord: siteNames(fn), names: map[string]nameBinding{}}
	if con.Safety != "logging" {
		fr.elide = ex.computeElision(fn)
	}
	st.fr = fr
	bindIn := func(v ssa.Value, name string) {
		s := ex.ctx.sortFor(v.Type())
		val := Val{T: st.freshConst("in."+name, s), S: s, Ty: v.Type()}
		fr.vals[v] = val
		if name != "" && name != "_" {
			run.params[name] = val
			fr.names[name] = nameBinding{v: val}
			run.inputs[name] = val.T
		}
		ex.assumeLoaded(st, val)
	}
	for _, p := range fn.Params {
		bindIn(p, p.Name())
	}
	for _, fv := range fn.FreeVars {
		// free variables are addresses of captured variables
		s := ex.ctx.sortFor(fv.Type())
		val := Val{T: st.freshConst("fv."+fv.Name(), s), S: s, Ty: fv.Type()}
		fr.vals[fv] = val
		st.assume(smtAnd(sx("alive0", val.T), smtNot(sx("=", val.T, "nil"))))
		fr.names[fv.Name()] = nameBinding{v: val, isAddr: true}
		if run.fvAddr == nil {
			run.fvAddr = map[string]Val{}
		}
		run.fvAddr[fv.Name()] = val
		run.inputs[fv.Name()] = val.T
	}
	if fn.Signature.Recv() != nil && len(fn.Params) > 0 {
		run.params["self"] = fr.vals[fn.Params[0]]
	}
	env := ex.funcEnv(st)
	for _, cl := range con.clauses("requires") {
		st.assume(ex.evalClause(env, cl, con))
	}
	for _, cl := range con.clauses("assume") {
		st.assume(ex.evalClause(env, cl, con))
		ex.noteAssumption("assumed, not checked at call sites: " + run.short + " " + cl.Label + ": " + cl.Src)
	}
	// axioms over uninterpreted spec functions: registered as global facts owned by the functions they mention, so
	// that only queries talking about those functions carry the (quantified) axiom
	for _, ax := range ex.db.Axioms {
		scratch := &State{ex: ex, heap: map[string]string{}, entry: map[string]string{}}
		term := ex.evalClause(&SpecEnv{st: scratch, vars: map[string]Val{}}, ax, &Contract{Key: "axiom"})
		if len(scratch.lines) > 0 {
			st.assume(ex.evalClause(&SpecEnv{st: st, vars: map[string]Val{}}, ax, &Contract{Key: "axiom"}))
			continue
		}
		used := map[string]bool{}
		smtTokens(term, used)
		var owners []string
		for tk := range used {
			if strings.HasPrefix(tk, "sf!") {
				owners = append(owners, tk)
			}
		}
		sort.Strings(owners)
		if len(owners) == 0 {
			st.assume(term)
			continue
		}
		ex.ctx.fact("axiom!"+ax.Label, term, owners...)
	}
	o := ex.newObl(st, "vacuity", "requires_satisfiable", "false", "requires ∧ axioms satisfiable", con.Props)
	o.Vacuity = true
	fr.onReturn = func(s *State, results []Val) { ex.exitNormal(s, results) }
	ex.explore(st, fn.Blocks[0], 0, nil)
	if run.aborted != "" {
		ex.issue("%s: UNDECIDED(%s)", run.short, run.aborted)
	}
}

// funcEnv is the contract environment of the function under verification.
func (ex *Exec) funcEnv(st *State) *SpecEnv {
	run := ex.cur
	env := &SpecEnv{st: st, vars: map[string]Val{}, pkg: nil}
	if run.fn.Pkg != nil {
		env.pkg = run.fn.Pkg.Pkg
	} else if run.fn.Parent() != nil && run.fn.Parent().Pkg != nil {
		env.pkg = run.fn.Parent().Pkg.Pkg
	}
	for k, v := range run.params {
		env.vars[k] = v
	}
	// free variables of closures: readable by name (value loaded from the captured cell at entry heap or current heap)
	for name, v := range run.fvAddr {
		if _, ok := env.vars[name]; !ok {
			env.addr = ensureAddrMap(env.addr)
			env.addr[name] = v
		}
	}
	for name, nb := range st.topFrame().names {
		if nb.isAddr {
			if _, ok := env.vars[name]; !ok {
				if _, ok2 := env.addr[name]; !ok2 {
					env.addr = ensureAddrMap(env.addr)
					env.addr[name] = nb.v
				}
			}
		}
	}
	return env
}

func ensureAddrMap(m map[string]Val) map[string]Val {
	if m == nil {
		return map[string]Val{}
	}
	return m
}

func (st *State) topFrame() *Frame {
	f := st.fr
	for f.parent != nil {
		f = f.parent
	}
	return f
}

// explore runs from instruction idx of block b (entered from pred).
func (ex *Exec) explore(st *State, b *ssa.BasicBlock, idx int, pred *ssa.BasicBlock) {
	run := ex.cur
	if run.aborted != "" {
		return
	}
	fr := st.fr
	if idx == 0 {
		st.trace = append(st.trace, fmt.Sprintf("%s%d", blockTag(fr), b.Index))
		if len(st.trace) > 400 {
			run.aborted = "path too long (unbounded loop without invariant?)"
			return
		}
		if fr.top {
			if li := fr.loops[b.Index]; li != nil {
				if !ex.loopCut(st, li, pred) {
					return
				}
				// phis were bound by loopCut
				idx = countPhis(b)
			}
		}
		if idx == 0 {
			// bind phis simultaneously
			var phis []*ssa.Phi
			var vals []Val
			for _, in := range b.Instrs {
				p, ok := in.(*ssa.Phi)
				if !ok {
					break
				}
				ei := predIndex(b, pred)
				phis = append(phis, p)
				vals = append(vals, ex.val(st, p.Edges[ei]))
			}
			for i, p := range phis {
				v := vals[i]
				v.Ty = p.Type()
				fr.vals[p] = v
				if p.Comment != "" {
					fr.names[p.Comment] = nameBinding{v: v}
				}
			}
			idx = len(phis)
		}
	}
	for i := idx; i < len(b.Instrs); i++ {
		in := b.Instrs[i]
		switch x := in.(type) {
		case *ssa.DebugRef:
			if id, ok := x.Expr.(*ast.Ident); ok {
				if v, ok2 := ex.tryVal(st, x.X); ok2 {
					fr.names[id.Name] = nameBinding{v: v, isAddr: x.IsAddr}
				}
			}
			continue
		case *ssa.If:
			if fr.elide != nil {
				if j := fr.elide.join[b]; j != nil {
					ex.noteAssumption("branches that only guard logging are skipped: their bodies are neither executed nor checked for panics")
					// enter the join block as if from one of its predecessors (it has no phis)
					ex.explore(st, j, 0, j.Preds[0])
					return
				}
			}
			c := ex.val(st, x.Cond)
			if c.T == "true" {
				ex.explore(st, b.Succs[0], 0, b)
				return
			}
			if c.T == "false" {
				ex.explore(st, b.Succs[1], 0, b)
				return
			}
			s2 := st.clone()
			st.assume(c.T)
			ex.explore(st, b.Succs[0], 0, b)
			s2.assume(smtNot(c.T))
			ex.explore(s2, b.Succs[1], 0, b)
			return
		case *ssa.Jump:
			ex.explore(st, b.Succs[0], 0, b)
			return
		case *ssa.Return:
			var rs []Val
			for _, r := range x.Results {
				rs = append(rs, ex.val(st, r))
			}
			ex.doReturn(st, rs)
			return
		case *ssa.Panic:
			v := ex.val(st, x.X)
			st.panicV = &v
			st.panicSite = fr.ord[in]
			if !fr.top {
				st.panicSite = fr.fn.Name() + "." + st.panicSite
			}
			ex.unwind(st)
			return
		case *ssa.RunDefers:
			if len(fr.defers) == 0 {
				continue
			}
			n := len(fr.defers) - 1
			d, args, fnv := fr.defers[n], fr.deferArgs[n], fr.deferFn[n]
			fr.defers, fr.deferArgs, fr.deferFn = fr.defers[:n], fr.deferArgs[:n], fr.deferFn[:n]
			outs := ex.doCall(st, d, &d.Call, fnv, args, nil)
			for _, s := range outs {
				ex.dispatch(s, b, i, pred, true)
			}
			return
		}
		outs := ex.execInstr(st, in)
		if len(outs) == 1 && outs[0] == st && st.panicV == nil && !st.enter {
			continue
		}
		for _, s := range outs {
			ex.dispatch(s, b, i+1, pred, false)
		}
		return
	}
}

// dispatch continues a state after an instruction that may have forked,
// started a panic, or entered an inlined closure.
func (ex *Exec) dispatch(s *State, b *ssa.BasicBlock, next int, pred *ssa.BasicBlock, deferredCall bool) {
	run := ex.cur
	run.paths++
	if run.paths > run.maxPaths {
		run.aborted = fmt.Sprintf("size-cap: more than %d path prefixes", run.maxPaths)
		return
	}
	switch {
	case s.panicV != nil && !s.enter:
		if s.panicSite == "" {
			s.panicSite = "callee"
		}
		ex.unwind(s)
	case s.enter:
		s.enter = false
		s.fr.retBlock, s.fr.retIdx, s.fr.retPred = b, next, pred
		s.fr.isDeferred = deferredCall
		ex.explore(s, s.fr.fn.Blocks[0], 0, nil)
	default:
		ex.explore(s, b, next, pred)
	}
}

func (ex *Exec) tryVal(st *State, v ssa.Value) (val Val, ok bool) {
	defer func() {
		if r := recover(); r != nil {
			if _, isU := r.(unsupportedErr); isU {
				ok = false
				return
			}
			panic(r)
		}
	}()
	return ex.val(st, v), true
}

func blockTag(fr *Frame) string {
	if fr.top {
		return "b"
	}
	return fr.fn.Name() + ":b"
}

func countPhis(b *ssa.BasicBlock) int {
	n := 0
	for _, in := range b.Instrs {
		if _, ok := in.(*ssa.Phi); !ok {
			break
		}
		n++
	}
	return n
}

func predIndex(b, pred *ssa.BasicBlock) int {
	for i, p := range b.Preds {
		if p == pred {
			return i
		}
	}
	panic(unsupported("phi without matching predecessor"))
}

// doReturn handles a Return instruction of the current frame.
func (ex *Exec) doReturn(st *State, rs []Val) {
	fr := st.fr
	if fr.top {
		fr.onReturn(st, rs)
		return
	}
	// pop an inlined closure
	st.fr = fr.parent
	if fr.retUnwind {
		ex.unwind(st)
		return
	}
	if fr.retRes != nil {
		if len(rs) == 1 {
			v := rs[0]
			v.Ty = fr.retRes.Type()
			st.fr.vals[fr.retRes] = v
		} else {
			st.fr.vals[fr.retRes] = Val{Tup: rs}
		}
	}
	ex.explore(st, fr.retBlock, fr.retIdx, fr.retPred)
}

// unwind propagates a panic: run the deferred calls of the current frame,
// then either resume at the Recover block (if a deferred call recovered) or
// pop the frame.
func (ex *Exec) unwind(st *State) {
	for {
		fr := st.fr
		if n := len(fr.defers); n > 0 {
			d, args, fnv := fr.defers[n-1], fr.deferArgs[n-1], fr.deferFn[n-1]
			fr.defers, fr.deferArgs, fr.deferFn = fr.defers[:n-1], fr.deferArgs[:n-1], fr.deferFn[:n-1]
			pv := st.panicV
			st.panicV = nil // the deferred call itself runs normally
			st.pendingPanic = pv
			outs := ex.doCall(st, d, &d.Call, fnv, args, nil)
			for _, s := range outs {
				if s.enter {
					s.enter = false
					s.fr.retUnwind = true
					s.fr.isDeferred = true
					s.panicV = s.pendingPanic // visible to recover()
					ex.explore(s, s.fr.fn.Blocks[0], 0, nil)
					continue
				}
				if s.panicV == nil {
					s.panicV = s.pendingPanic
				}
				ex.unwind(s)
			}
			return
		}
		if st.recovered {
			st.recovered = false
			st.panicV = nil
			if fr.fn.Recover != nil {
				ex.explore(st, fr.fn.Recover, 0, nil)
				return
			}
			// no named results: return zero values
			var rs []Val
			res := fr.fn.Signature.Results()
			for i := 0; i < res.Len(); i++ {
				rs = append(rs, zeroTerm(ex.ctx, res.At(i).Type()))
			}
			ex.doReturn(st, rs)
			return
		}
		if st.panicV == nil {
			// a deferred closure finished without recovering: the original panic continues
			st.panicV = st.pendingPanic
		}
		if fr.parent != nil {
			st.fr = fr.parent
			continue
		}
		ex.exitPanic(st)
		return
	}
}

// ---------------------------------------------------------------------------
// exits

func (ex *Exec) exitEnv(st *State, results []Val) *SpecEnv {
	env := ex.funcEnv(st)
	sig := ex.cur.fn.Signature
	if results != nil {
		var r Val
		if len(results) == 1 {
			r = results[0]
		} else {
			r = Val{Tup: results}
		}
		ex.bindResults(env, sig, r)
	}
	return env
}

func (ex *Exec) exitNormal(st *State, results []Val) {
	run := ex.cur
	con := run.con
	run.exits++
	env := ex.exitEnv(st, results)
	if run.exits <= 48 {
		o := ex.newObl(st, "vacuity", "exit_reachable", "false", "some return path is feasible", con.Props)
		o.Canary = true
	}
	ex.applyGhostSets(st, env, con)
	for _, cl := range con.clauses("ensures") {
		g := ex.evalClause(env, cl, con)
		o := ex.newObl(st, "ensures", cl.Label, g, cl.Src, ex.propsOf(cl, con))
		ex.modelTerms(o, env, results)
	}
	// ensures_local: a postcondition that may mention what the function's own callees returned on this
	// path (returned(f, i)); checked at every normal return on which those calls happened, invisible to callers
	if lcs := con.clauses("ensures_local"); len(lcs) > 0 {
		lenv := *env
		lenv.locals = map[string]Val{}
		for _, cl := range lcs {
			g, skipped := ex.evalLocalClause(&lenv, cl, con)
			if skipped {
				continue
			}
			o := ex.newObl(st, "ensures", cl.Label, g, cl.Src, ex.propsOf(cl, con))
			ex.modelTerms(o, env, results)
		}
	}
	ex.checkFrame(st, env, "")
}

// evalLocalClause evaluates an ensures_local clause; a path on which a call it names did not happen is
// skipped (the dropped-obligation rule reports a clause that is skipped on every path).
func (ex *Exec) evalLocalClause(env *SpecEnv, cl *Clause, con *Contract) (g string, skipped bool) {
	defer func() {
		if r := recover(); r != nil {
			if strings.Contains(fmt.Sprint(r), "on this path (guard the clause") {
				skipped = true
				return
			}
			panic(r)
		}
	}()
	return ex.evalClause(env, cl, con), false
}

func (ex *Exec) modelTerms(o *Obligation, env *SpecEnv, results []Val) {
	for i, r := range results {
		if r.T != "" && (r.S == sortBool || strings.HasPrefix(r.S, "(_ BitVec")) {
			o.Values = append(o.Values, r.T)
			o.ResultTerms = append(o.ResultTerms, fmt.Sprintf("result%d=%s", i, r.T))
		}
	}
}

func (ex *Exec) exitPanic(st *State) {
	run := ex.cur
	con := run.con
	env := ex.exitEnv(st, nil)
	site := st.panicSite
	pcl := con.clauses("panics_only_if")
	if len(pcl) == 0 {
		ex.newObl(st, "nopanic", site, "false", "no panic (function has no panics_only_if clause)", con.Props)
	} else {
		var conds []string
		var srcs []string
		oenv := env.withHeap(st.entry)
		for _, cl := range pcl {
			conds = append(conds, ex.evalClause(oenv, cl, con))
			srcs = append(srcs, cl.Src)
		}
		ex.newObl(st, "panics_only_if", site, smtOr(conds...), strings.Join(srcs, " || "), con.Props)
	}
	for _, cl := range con.clauses("ensures_on_panic") {
		g := ex.evalClause(env, cl, con)
		ex.newObl(st, "ensures_on_panic", cl.Label+"@"+site, g, cl.Src, ex.propsOf(cl, con))
	}
	ex.checkFrame(st, env, "@panic:"+site)
}

// checkFrame verifies the assigns clause: every heap array changed on this
// path differs from its entry version only at permitted locations (objects
// allocated during the call are always permitted).
func (ex *Exec) checkFrame(st *State, env *SpecEnv, suffix string) {
	con := ex.cur.con
	for _, fg := range ex.frameGoals(st, env, nil) {
		ex.newObl(st, "assigns", heapHuman(fg.heap)+suffix, fg.goal, "only locations in the assigns clause change: "+assignsText(con), con.Props)
	}
}

type frameGoal struct{ heap, goal string }

// frameGoals returns, per heap array that differs from its entry version, the
// formula "it differs only at locations the assigns clause permits".  With
// only != nil the result is restricted to those heaps (loop frames).
func (ex *Exec) frameGoals(st *State, env *SpecEnv, only map[string]bool) (out []frameGoal) {
	con := ex.cur.con
	if !con.HasAssign || con.AssignsEv {
		return
	}
	locs := ex.assignLocs(env.withHeap(st.entry), con)
	var names []string
	for h := range st.heap {
		names = append(names, h)
	}
	sort.Strings(names)
	for _, h := range names {
		cur := st.heap[h]
		if cur == h || strings.HasPrefix(h, "IT!") {
			continue
		}
		if only != nil && !only[h] {
			continue
		}
		hs := ex.ctx.heapSortOf(h)
		var allowed []loc
		for _, l := range locs {
			if l.heap == h {
				allowed = append(allowed, l)
			}
		}
		goal := ""
		ks, inner, isArr := arrayParts(hs)
		whole := false
		for _, l := range allowed {
			if l.ref == "" && l.key == "" {
				whole = true
			}
		}
		if whole {
			continue
		}
		switch {
		case strings.HasPrefix(h, "G!") || (strings.HasPrefix(h, "GH!") && !isArr):
			goal = sx("=", cur, h)
		case strings.HasPrefix(h, "GH!"):
			var ex2 []string
			for _, l := range allowed {
				ex2 = append(ex2, smtNot(sx("=", "k", l.key)))
			}
			goal = fmt.Sprintf("(forall ((k %s)) (=> %s (= (select %s k) (select %s k))))", ks, smtAnd(ex2...), cur, h)
		default:
			// ref-indexed
			_, _, innerArr := arrayParts(inner)
			var exact []string // whole-object permissions
			var ranged []loc
			for _, l := range allowed {
				if l.lo == "" && l.key == "" {
					exact = append(exact, smtNot(sx("=", "r", l.ref)))
				} else {
					ranged = append(ranged, l)
				}
			}
			guard := smtAnd(append([]string{sx("alive0", "r")}, exact...)...)
			if !innerArr || len(ranged) == 0 {
				goal = fmt.Sprintf("(forall ((r Ref)) (=> %s (= (select %s r) (select %s r))))", guard, cur, h)
			} else {
				iks, _, _ := arrayParts(inner)
				var outs []string
				for _, l := range ranged {
					if l.key != "" {
						outs = append(outs, smtNot(smtAnd(sx("=", "r", l.ref), sx("=", "j", l.key))))
					} else {
						outs = append(outs, smtNot(smtAnd(sx("=", "r", l.ref), sx("bvule", l.lo, "j"), sx("bvult", "j", l.hi))))
					}
				}
				goal = fmt.Sprintf("(forall ((r Ref) (j %s)) (=> %s (= (select (select %s r) j) (select (select %s r) j))))", iks, smtAnd(append([]string{guard}, outs...)...), cur, h)
			}
		}
		out = append(out, frameGoal{h, goal})
	}
	return
}

func assignsText(con *Contract) string {
	var s []string
	for _, a := range con.Assigns {
		s = append(s, a.Src)
	}
	if len(s) == 0 {
		return "nothing"
	}
	return strings.Join(s, ", ")
}

func heapHuman(h string) string {
	return strings.NewReplacer("F!", "", "G!", "", "GH!", "ghost.", "E!", "elems.", "C!", "cell.", "M!", "map.", "MP!", "mapkeys.", "!", ".").Replace(h)
}

// ---------------------------------------------------------------------------
// loops

type loopWrites struct {
	heaps     map[string]bool
	all       bool
	iterHeaps []string
}

func (w *loopWrites) heapSet() map[string]bool {
	m := map[string]bool{}
	for h := range w.heaps {
		m[h] = true
	}
	return m
}

func (ex *Exec) staticHeapOfPtrType(t types.Type) []string {
	c := ex.ctx
	pt, ok := t.Underlying().(*types.Pointer)
	if !ok {
		return nil
	}
	e := pt.Elem()
	if c.isDatatypeStruct(e) {
		n, s := structOf(e)
		var hs []string
		for i := 0; i < s.NumFields(); i++ {
			hs = append(hs, c.heapDecl(fieldHeap(typeKey(n), s.Field(i).Name(), i), arraySort(sortRef, c.sortFor(s.Field(i).Type()))))
		}
		return hs
	}
	if at, ok := e.Underlying().(*types.Array); ok {
		return []string{c.elemHeap(c.sortFor(at.Elem()))}
	}
	return []string{c.cellHeap(c.sortFor(e))}
}

func (ex *Exec) computeLoopWrites(fn *ssa.Function, li *loopInfo) *loopWrites {
	c := ex.ctx
	w := &loopWrites{heaps: map[string]bool{}}
	addCall := func(cc *ssa.CallCommon) {
		if b, ok := cc.Value.(*ssa.Builtin); ok && !cc.IsInvoke() {
			switch b.Name() {
			case "append", "copy":
				et := cc.Args[0].Type().Underlying().(*types.Slice).Elem()
				w.heaps[c.elemHeap(c.sortFor(et))] = true
			case "delete":
				mt := cc.Args[0].Type().Underlying().(*types.Map)
				_, ph := c.mapHeaps(c.sortFor(mt.Key()), c.sortFor(mt.Elem()))
				w.heaps[ph] = true
			}
			return
		}
		ci := ex.callee(nil, cc)
		if ci == nil {
			w.all = true
			return
		}
		con, ok := ex.db.Contracts[ci.key]
		if !ok {
			if ex.isPurePkg(ci.pkg) || ex.purePk[ci.key] {
				return
			}
			w.all = true
			return
		}
		if !con.HasAssign || con.AssignsEv {
			w.all = true
			return
		}
		for _, a := range con.Assigns {
			for _, h := range ex.heapsOfAssign(a, con, ci) {
				w.heaps[h] = true
			}
		}
	}
	for _, b := range fn.Blocks {
		if !li.body[b.Index] {
			continue
		}
		for _, in := range b.Instrs {
			switch x := in.(type) {
			case *ssa.Store:
				switch a := x.Addr.(type) {
				case *ssa.FieldAddr:
					pt := a.X.Type().Underlying().(*types.Pointer)
					n, s := structOf(pt.Elem())
					if n != nil && c.isDatatypeStruct(pt.Elem()) {
						f := s.Field(a.Field)
						w.heaps[c.heapDecl(fieldHeap(typeKey(n), f.Name(), a.Field), arraySort(sortRef, c.sortFor(f.Type())))] = true
					} else {
						w.all = true
					}
				case *ssa.IndexAddr:
					switch t := a.X.Type().Underlying().(type) {
					case *types.Slice:
						w.heaps[c.elemHeap(c.sortFor(t.Elem()))] = true
					case *types.Pointer:
						at := t.Elem().Underlying().(*types.Array)
						if fa, ok := a.X.(*ssa.FieldAddr); ok {
							pt := fa.X.Type().Underlying().(*types.Pointer)
							n, s := structOf(pt.Elem())
							f := s.Field(fa.Field)
							w.heaps[c.heapDecl(fieldHeap(typeKey(n), f.Name(), fa.Field), arraySort(sortRef, c.sortFor(f.Type())))] = true
						} else {
							w.heaps[c.elemHeap(c.sortFor(at.Elem()))] = true
						}
					}
				case *ssa.Global:
					if obj, ok := a.Object().(*types.Var); ok {
						w.heaps[c.heapDecl(globalHeapName(obj), c.sortFor(obj.Type()))] = true
					}
				default:
					for _, h := range ex.staticHeapOfPtrType(x.Addr.Type()) {
						w.heaps[h] = true
					}
				}
			case *ssa.Next:
				hn := "IT!" + smtIdent(fn.Name()+"."+x.Iter.Name())
				if ex.ctx.heapSortOf(hn) != "" {
					w.heaps[hn] = true
				} else {
					w.iterHeaps = append(w.iterHeaps, hn)
				}
			case *ssa.MapUpdate:
				mt := x.Map.Type().Underlying().(*types.Map)
				vh, ph := c.mapHeaps(c.sortFor(mt.Key()), c.sortFor(mt.Elem()))
				w.heaps[vh], w.heaps[ph] = true, true
			case *ssa.Call:
				addCall(&x.Call)
			case *ssa.Defer:
				addCall(&x.Call)
			case *ssa.Alloc, *ssa.MakeSlice, *ssa.MakeMap:
				// allocation initialises fresh objects: the heap arrays change, but only at fresh refs.
				// They are havocked too (sound), invariants speak about pre-existing objects.
				switch y := in.(type) {
				case *ssa.Alloc:
					for _, h := range ex.staticHeapOfPtrType(y.Type()) {
						w.heaps[h] = true
					}
				case *ssa.MakeSlice:
					w.heaps[c.elemHeap(c.sortFor(y.Type().Underlying().(*types.Slice).Elem()))] = true
				case *ssa.MakeMap:
					mt := y.Type().Underlying().(*types.Map)
					_, ph := c.mapHeaps(c.sortFor(mt.Key()), c.sortFor(mt.Elem()))
					w.heaps[ph] = true
				}
			}
		}
	}
	return w
}

// heapsOfAssign gives the heap arrays an assigns item of a callee can touch (static approximation).
func (ex *Exec) heapsOfAssign(a AssignItem, con *Contract, ci *calleeInfo) []string {
	c := ex.ctx
	n := a.Expr
	switch n.Kind {
	case "ident":
		if n.Name == "textmem" {
			return []string{c.elemHeap(bvSort(8))}
		}
		if g, ok := ex.db.Ghosts[n.Name]; ok {
			env := &SpecEnv{st: &State{ex: ex, heap: map[string]string{}}}
			s, _ := env.ghostSort(g)
			return []string{c.heapDecl("GH!"+g.Name, s)}
		}
	case "index", "slice":
		if n.Args[0].Kind == "ident" {
			if n.Args[0].Name == "textmem" {
				return []string{c.elemHeap(bvSort(8))}
			}
			if g, ok := ex.db.Ghosts[n.Args[0].Name]; ok {
				env := &SpecEnv{st: &State{ex: ex, heap: map[string]string{}}}
				s, _ := env.ghostSort(g)
				return []string{c.heapDecl("GH!"+g.Name, s)}
			}
		}
	}
	// fall back: evaluate the item symbolically in a scratch state with fresh arguments
	scratch := &State{ex: ex, heap: map[string]string{}, entry: map[string]string{}}
	scratch.fr = &Frame{fn: ex.cur.fn, vals: map[ssa.Value]Val{}, names: map[string]nameBinding{}}
	var args []Val
	for _, t := range paramTypes(ci.sig) {
		s := c.sortFor(t)
		args = append(args, Val{T: scratch.freshConst("a", s), S: s, Ty: t})
	}
	env := ex.contractEnv(scratch, con, ci, args)
	one := &Contract{Key: con.Key, Assigns: []AssignItem{a}, HasAssign: true}
	var hs []string
	for _, l := range ex.assignLocs(env, one) {
		hs = append(hs, l.heap)
	}
	return hs
}

// loopCut implements the cut at a loop header.  It returns true if execution
// continues into the loop body (first arrival), false if the path ends here
// (back edge: invariant preservation has been emitted).
func (ex *Exec) loopCut(st *State, li *loopInfo, pred *ssa.BasicBlock) bool {
	run := ex.cur
	con := run.con
	fr := st.fr
	b := li.header
	// incoming phi values
	var phis []*ssa.Phi
	var inc []Val
	for _, in := range b.Instrs {
		p, ok := in.(*ssa.Phi)
		if !ok {
			break
		}
		phis = append(phis, p)
		inc = append(inc, ex.val(st, p.Edges[predIndex(b, pred)]))
	}
	var invs, decs, steps, enters []*Clause
	for _, cl := range con.Clauses {
		if cl.Loop == li.ordinal || (cl.Loop == 0 && len(fr.loops) == 1) {
			if cl.Kind == "invariant" {
				invs = append(invs, cl)
			} else if cl.Kind == "decreases" {
				decs = append(decs, cl)
			} else if cl.Kind == "step" {
				steps = append(steps, cl)
			} else if cl.Kind == "enter" {
				enters = append(enters, cl)
			}
		}
	}
	back := pred != nil && li.body[pred.Index]
	mkEnv := func(vals []Val, names map[string]nameBinding) *SpecEnv {
		env := ex.funcEnv(st)
		for k, nb := range names {
			if nb.isAddr {
				env.addr = ensureAddrMap(env.addr)
				env.addr[k] = nb.v
			} else if _, isParam := run.params[k]; !isParam || true {
				env.vars[k] = nb.v
			}
		}
		for i, p := range phis {
			if p.Comment != "" {
				v := vals[i]
				v.Ty = p.Type()
				env.vars[p.Comment] = v
				delete(env.addr, p.Comment)
			}
		}
		return env
	}
	if back {
		// vacuity guard: some path around the loop must be feasible under the invariant
		if run.backedges == nil {
			run.backedges = map[int]int{}
		}
		if run.backedges[b.Index] < 12 {
			run.backedges[b.Index]++
			o := ex.newObl(st, "vacuity", fmt.Sprintf("loop%d_body_reachable", li.ordinal), "false", "some iteration of the loop is feasible under its invariant", con.Props)
			o.Canary = true
		}
		names := run.loopEnv[b.Index]
		env := mkEnv(inc, names)
		for _, cl := range invs {
			g := ex.evalClause(env, cl, con)
			ex.newObl(st, "invariant", fmt.Sprintf("%s@loop%d.preserved", cl.Label, li.ordinal), g, cl.Src, ex.propsOf(cl, con))
		}
		if len(steps) > 0 {
			// step clauses: a fact about every completed iteration, stated over the values
			// at the loop head (at_head(x)) and at the back edge
			senv := mkEnv(inc, names)
			senv.head = map[string]Val{}
			for _, p := range phis {
				if p.Comment != "" {
					hv := fr.vals[p]
					hv.Ty = p.Type()
					senv.head[p.Comment] = hv
				}
			}
			for _, cl := range steps {
				g := ex.evalClause(senv, cl, con)
				ex.newObl(st, "step", fmt.Sprintf("%s@loop%d", cl.Label, li.ordinal), g, cl.Src, ex.propsOf(cl, con))
			}
		}
		if w := run.writes[b.Index]; w != nil {
			for _, fg := range ex.frameGoals(st, ex.funcEnv(st), w.heapSet()) {
				ex.newObl(st, "assigns", fmt.Sprintf("%s@loop%d.preserved", heapHuman(fg.heap), li.ordinal), fg.goal, "only locations in the assigns clause change (loop frame): "+assignsText(con), con.Props)
			}
		}
		for _, cl := range decs {
			m0 := st.measures[fmt.Sprintf("%d.%s", b.Index, cl.Label)]
			nv := env.eval(cl.Expr)
			nv = env.coerce(nv, bvSort(64), types.Typ[types.Int])
			g := smtAnd(sx("bvsle", bv64(0), m0), sx("bvslt", nv.T, m0))
			ex.newObl(st, "decreases", fmt.Sprintf("%s@loop%d", cl.Label, li.ordinal), g, cl.Src, ex.propsOf(cl, con))
		}
		return false
	}
	if len(invs) == 0 {
		ex.noteAssumption(fmt.Sprintf("%s loop %d has no invariant: cut with invariant 'true'", run.short, li.ordinal))
	}
	if st.visited[b.Index] > 0 {
		panic(unsupported(fmt.Sprintf("loop %d re-entered from outside (irreducible or nested re-entry)", li.ordinal)))
	}
	st.visited[b.Index]++
	st.loopHeap = st.heapCopy()
	st.loopFresh = append([]string(nil), st.fresh...)
	// snapshot of names at first arrival
	snap := map[string]nameBinding{}
	for k, v := range fr.names {
		snap[k] = v
	}
	run.loopEnv[b.Index] = snap
	env := mkEnv(inc, snap)
	for _, cl := range invs {
		g := ex.evalClause(env, cl, con)
		ex.newObl(st, "invariant", fmt.Sprintf("%s@loop%d.init", cl.Label, li.ordinal), g, cl.Src, ex.propsOf(cl, con))
	}
	// enter clauses: the state in which the loop is first reached (the base case that goes with step clauses)
	for _, cl := range enters {
		g := ex.evalClause(env, cl, con)
		ex.newObl(st, "enter", fmt.Sprintf("%s@loop%d", cl.Label, li.ordinal), g, cl.Src, ex.propsOf(cl, con))
	}
	// havoc
	w := run.writes[b.Index]
	if w == nil {
		w = ex.computeLoopWrites(fr.fn, li)
		run.writes[b.Index] = w
	}
	if w.all {
		panic(unsupported(fmt.Sprintf("loop %d calls code without an assigns clause (cannot compute the loop's write set)", li.ordinal)))
	}
	var hs []string
	for h := range w.heaps {
		hs = append(hs, h)
	}
	for _, h := range w.iterHeaps {
		if ex.ctx.heapSortOf(h) != "" {
			hs = append(hs, h)
		}
	}
	sort.Strings(hs)
	// the function's own frame is an implicit invariant of every loop: checked
	// on arrival and around the back edge, assumed for the havocked heaps
	for _, fg := range ex.frameGoals(st, ex.funcEnv(st), w.heapSet()) {
		ex.newObl(st, "assigns", fmt.Sprintf("%s@loop%d.init", heapHuman(fg.heap), li.ordinal), fg.goal, "only locations in the assigns clause change (loop frame): "+assignsText(con), con.Props)
	}
	for _, h := range hs {
		st.hhavoc(h)
	}
	for _, fg := range ex.frameGoals(st, ex.funcEnv(st), w.heapSet()) {
		st.assume(fg.goal)
	}
	// keys already yielded by a map iterator were present when the range statement started
	for _, h := range hs {
		for _, it := range st.iters {
			if h == it.Heap {
				st.assume(fmt.Sprintf("(forall ((k %s)) (! (=> (select %s k) (select %s k)) :pattern ((select %s k))))", it.KS, st.hget(h), it.Pres, st.hget(h)))
			}
		}
	}
	vals := make([]Val, len(phis))
	for i, p := range phis {
		s := ex.ctx.sortFor(p.Type())
		if inc[i].P != nil && inc[i].T == "" {
			panic(unsupported("interior pointer carried around a loop"))
		}
		v := Val{T: st.freshConst("loop."+p.Comment, s), S: s, Ty: p.Type()}
		ex.assumeLoaded(st, v)
		vals[i] = v
		fr.vals[p] = v
		if p.Comment != "" {
			fr.names[p.Comment] = nameBinding{v: v}
		}
	}
	env = mkEnv(vals, snap)
	for _, cl := range invs {
		st.assume(ex.evalClause(env, cl, con))
	}
	if st.measures == nil {
		st.measures = map[string]string{}
	} else {
		m := map[string]string{}
		for k, v := range st.measures {
			m[k] = v
		}
		st.measures = m
	}
	for _, cl := range decs {
		mv := env.coerce(env.eval(cl.Expr), bvSort(64), types.Typ[types.Int])
		st.measures[fmt.Sprintf("%d.%s", b.Index, cl.Label)] = st.define("measure", bvSort(64), mv.T)
	}
	return true
}

// applyGhostSets performs the ghost assignments of a contract (at normal return).
func (ex *Exec) applyGhostSets(st *State, env *SpecEnv, con *Contract) {
	defer func() {
		if r := recover(); r != nil {
			if se, ok := r.(specErr); ok {
				panic(unsupported(fmt.Sprintf("contract %s ghost_set: %s", shortFuncName(con.Key), se.msg)))
			}
			panic(r)
		}
	}()
	for _, cl := range con.clauses("ghost_set") {
		rhs := env.eval(cl.Expr)
		lhs := cl.Lhs
		switch lhs.Kind {
		case "ident":
			g, ok := ex.db.Ghosts[lhs.Name]
			if !ok {
				specFail("ghost_set target %s is not a ghost variable", lhs.Name)
			}
			s, ty := env.ghostSort(g)
			rhs = env.coerce(rhs, s, ty)
			h := ex.ctx.heapDecl("GH!"+g.Name, s)
			st.heap[h] = st.define(h, s, rhs.T)
		case "index":
			if lhs.Args[0].Kind != "ident" {
				specFail("ghost_set target must be a ghost variable or an element of a ghost map")
			}
			g, ok := ex.db.Ghosts[lhs.Args[0].Name]
			if !ok {
				specFail("ghost_set target %s is not a ghost variable", lhs.Args[0].Name)
			}
			s, _ := env.ghostSort(g)
			ks, vs, _ := arrayParts(s)
			k := env.coerce(env.eval(lhs.Args[1]), ks, nil)
			rhs = env.coerce(rhs, vs, nil)
			h := ex.ctx.heapDecl("GH!"+g.Name, s)
			st.hset(h, sx("store", st.hget(h), k.T, rhs.T))
		default:
			specFail("unsupported ghost_set target")
		}
	}
}
