package main

import (
	"fmt"
	"strings"
)

const c03SuffixReplay = `package patch

import (
	"bytes"
	"testing"

	"github.com/tencent/goom/internal/arch/x86asm"
)

// Representative input of the failing class (the solver returns no model for this quantified
// obligation): a RIP-relative instruction whose displacement is followed by an immediate.
func TestGovcReplay(t *testing.T) {
	block := []byte{0xC7, 0x05, 0x00, 0x10, 0x00, 0x00, 0x05, 0x00, 0x00, 0x00, 0xC3, 0xCC, 0xCC, 0xCC, 0xCC, 0xCC}
	ins, err := x86asm.Decode(block, 64)
	if err != nil {
		t.Skip(err)
	}
	cp := append([]byte(nil), block...)
	out := fixIns(&ins, 0, cp, ins.Len, uint64(0x500000), uintptr(0x600000))
	if len(out) < ins.Len || !bytes.Equal(out[len(out)-4:], block[6:10]) {
		t.Fatalf("relocated instruction lost its trailing immediate: in % x -> out % x", block[:ins.Len], out)
	}
	d := int32(uint32(out[2]) | uint32(out[3])<<8 | uint32(out[4])<<16 | uint32(out[5])<<24)
	if got, want := int64(0x600000)+int64(len(out))+int64(d), int64(0x500000)+10+0x1000; got != want {
		t.Fatalf("relocated operand points to %#x, want %#x", got, want)
	}
}
`

const c03GrowthReplay = `package patch

import (
	"testing"

	"github.com/tencent/goom/internal/arch/x86asm"
)

// cmp rsp,[r14+0x10]; jbe +0x30 (outside the copied prefix -> widened); lea rax,[rip+0x1000]; ret; padding
func TestGovcReplay(t *testing.T) {
	block := []byte{0x49, 0x3B, 0x66, 0x10, 0x76, 0x30, 0x48, 0x8D, 0x05, 0x00, 0x10, 0x00, 0x00, 0xC3}
	for len(block) < 64 {
		block = append(block, 0xCC)
	}
	from, tramp := uintptr(0x500000), uintptr(0x600000)
	fixed, size, err := fixBlock(from, block, tramp, 13, 13)
	if err != nil {
		t.Skip(err)
	}
	// walk the relocated code and compare the absolute target of every PC-relative operand
	want := map[int]int64{4: int64(from) + 6 + 0x30, 6: int64(from) + 13 + 0x1000}
	in, out := 0, 0
	for in < size {
		oi, _ := x86asm.Decode(block[in:], 64)
		ni, err := x86asm.Decode(fixed[out:], 64)
		if err != nil {
			t.Fatalf("relocated code does not decode at %d: % x", out, fixed)
		}
		if w, ok := want[in]; ok {
			d := int64(0)
			f := fixed[out+ni.PCRelOff : out+ni.PCRelOff+ni.PCRel]
			switch ni.PCRel {
			case 1:
				d = int64(int8(f[0]))
			case 4:
				d = int64(int32(uint32(f[0]) | uint32(f[1])<<8 | uint32(f[2])<<16 | uint32(f[3])<<24))
			}
			got := int64(tramp) + int64(out) + int64(ni.Len) + d
			if got != w {
				t.Errorf("instruction at input offset %d (%v) relocated to output offset %d: target %#x, want %#x (off by %d)", in, oi.String(), out, got, w, got-w)
			}
		}
		in += oi.Len
		out += ni.Len
	}
}
`

const c03Rel16Replay = `package bytecode

import "testing"

// Representative input of the failing class: a 16-bit displacement that does not fit in 8 bits.
func TestGovcReplay(t *testing.T) {
	defer func() { recover() }() // a panic is an acceptable refusal
	r := EncodeAddress([]byte{0x66, 0xE9}, []byte{0x00, 0x7D}, 2, 32000, 1000)
	got := int(int16(uint16(r[len(r)-2]) | uint16(r[len(r)-1])<<8))
	if len(r) == 4 && got != 33000 {
		t.Fatalf("EncodeAddress silently wrapped a 16-bit displacement: want 33000 or a panic, encoded %d (% x)", got, r)
	}
}
`

const c03RawCopyReplay = `package patch

import (
	"encoding/binary"
	"syscall"
	"testing"
	"unsafe"
)

// A leaf function that is copied whole into the placeholder: two RIP-relative loads and RET, followed by a
// byte that does not decode (so GetFuncSize stops right after the RET).
func TestGovcReplay(t *testing.T) {
	mem, err := syscall.Mmap(-1, 0, 2*4096, syscall.PROT_READ|syscall.PROT_WRITE|syscall.PROT_EXEC, syscall.MAP_ANON|syscall.MAP_PRIVATE)
	if err != nil {
		t.Skip(err)
	}
	defer syscall.Munmap(mem)
	origin := mem[:4096]
	tramp := mem[4096:]
	code := []byte{0x48, 0x8B, 0x05, 0x00, 0x10, 0x00, 0x00, 0x48, 0x8B, 0x0D, 0x00, 0x10, 0x00, 0x00, 0xC3, 0x06}
	copy(origin, code)
	for i := 0; i < 64; i++ {
		tramp[i] = 0x90
	}
	for i := 64; i < 72; i++ {
		tramp[i] = 0xCC
	}
	tramp[72] = 0x90
	o := uintptr(unsafe.Pointer(&origin[0]))
	tr := uintptr(unsafe.Pointer(&tramp[0]))
	if _, err := fixOriginFuncToTrampoline(o, tr, 13); err != nil {
		t.Skip(err)
	}
	// the first load must still address origin+7+0x1000
	d := int64(int32(binary.LittleEndian.Uint32(tramp[3:7])))
	if got, want := int64(tr)+7+d, int64(o)+7+0x1000; got != want {
		t.Fatalf("placeholder received the raw copy: first RIP-relative load addresses %#x, want %#x (displacement %#x)", got, want, d)
	}
}
`

const c03BranchBackReplay = `package patch

import "testing"

// Representative inputs of the failing class (16 one-byte NOPs, then a short jump back, RET, padding):
// a branch from the body of the function into the 13 bytes the entry jump overwrites must be refused.
func TestGovcReplay(t *testing.T) {
	for _, target := range []int{%s} {
		block := make([]byte, 0, 64)
		for i := 0; i < 16; i++ {
			block = append(block, 0x90)
		}
		block = append(block, 0xEB, byte(int8(target-18)), 0xC3)
		for len(block) < 64 {
			block = append(block, 0xCC)
		}
		func() {
			defer func() { recover() }() // a panic is an acceptable refusal
			if err := checkJumpBetween(0x500000, 13, block, len(block)-1); err == nil {
				t.Errorf("checkJumpBetween accepted a function whose body jumps back to offset %%d of the overwritten 13-byte prefix", target)
			}
		}()
	}
}
`

func init() {
	registerProperty(&PropertyConfig{
		ID:      "C03",
		Explain: "relocation contracts over an abstract instruction stream (x86asm.Decode replaced by its contract): displacement re-encoding exact or panics, relocated instruction keeps its absolute target and its non-displacement bytes, placeholder frame, all errors precede the write",
		Trusted: []string{"x86asm.Decode contract (C16: bounded stand-in)", "|from - trampoline| < 2^31 and targets within one image (Go linker limit for amd64 text)", "package initialisers ran (opExpand contents)", "checkJumpBetween is proved per iteration (enter/step clauses): the lift to the whole instruction stream of the function is an induction on paper; that both fixBlock passes of fixRelativeAddr stop at the same instruction boundary is not stated as a clause"},
		Replay: func(o *Options, g *groupResult, model map[string]string) (string, string, bool) {
			switch {
			case strings.HasPrefix(g.name, "internal/patch.fixBlock#"):
				return "internal/patch", c03GrowthReplay, true
			case strings.HasPrefix(g.name, "internal/patch.fixIns#"):
				return "internal/patch", c03SuffixReplay, true
			case strings.HasPrefix(g.name, "internal/patch.fixOriginFuncToTrampoline#ensures:placeholder_receives"):
				return "internal/patch", c03RawCopyReplay, true
			case strings.HasPrefix(g.name, "internal/patch.checkJumpBetween#") && strings.Contains(g.name, "patched_entry"):
				return "internal/patch", fmt.Sprintf(c03BranchBackReplay, "0"), true
			case strings.HasPrefix(g.name, "internal/patch.checkJumpBetween#"):
				return "internal/patch", fmt.Sprintf(c03BranchBackReplay, "1, 5, 12"), true
			case strings.HasPrefix(g.name, "internal/bytecode.EncodeAddress#"):
				return "internal/bytecode", c03Rel16Replay, true
			}
			return "", "", false
		},
	})
}
