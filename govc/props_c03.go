package main

import "strings"

const c03SuffixReplay = `package patch

import (
	"bytes"
	"testing"

	"github.com/tencent/goom/internal/arch/x86asm"
)

// Representative input of the failing class (the solver returns no model for this quantified
// obligation): a RIP-relative instruction whose displacement is followed by an immediate.
func TestGovcReplay(t *testing.T) {
	block := []byte{0xC7, 0x05, 0x00, 0x10, 0x00, 0x00, 0x05, 0x00, 0x00, 0x00, 0xC3, 0xCC, 0xCC, 0xCC, 0xCC, 0xCC}
	ins, err := x86asm.Decode(block, 64)
	if err != nil {
		t.Skip(err)
	}
	cp := append([]byte(nil), block...)
	out := fixIns(&ins, 0, cp, ins.Len, uint64(0x500000), uintptr(0x600000))
	if len(out) < ins.Len || !bytes.Equal(out[len(out)-4:], block[6:10]) {
		t.Fatalf("relocated instruction lost its trailing immediate: in % x -> out % x", block[:ins.Len], out)
	}
	d := int32(uint32(out[2]) | uint32(out[3])<<8 | uint32(out[4])<<16 | uint32(out[5])<<24)
	if got, want := int64(0x600000)+int64(len(out))+int64(d), int64(0x500000)+10+0x1000; got != want {
		t.Fatalf("relocated operand points to %#x, want %#x", got, want)
	}
}
`

const c03Rel16Replay = `package bytecode

import "testing"

// Representative input of the failing class: a 16-bit displacement that does not fit in 8 bits.
func TestGovcReplay(t *testing.T) {
	defer func() { recover() }() // a panic is an acceptable refusal
	r := EncodeAddress([]byte{0x66, 0xE9}, []byte{0x00, 0x7D}, 2, 32000, 1000)
	got := int(int16(uint16(r[len(r)-2]) | uint16(r[len(r)-1])<<8))
	if len(r) == 4 && got != 33000 {
		t.Fatalf("EncodeAddress silently wrapped a 16-bit displacement: want 33000 or a panic, encoded %d (% x)", got, r)
	}
}
`

func init() {
	registerProperty(&PropertyConfig{
		ID:      "C03",
		Explain: "relocation contracts over an abstract instruction stream (x86asm.Decode replaced by its contract): displacement re-encoding exact or panics, relocated instruction keeps its absolute target and its non-displacement bytes, placeholder frame, all errors precede the write",
		Trusted: []string{"x86asm.Decode contract (C16: bounded stand-in)", "|from - trampoline| < 2^31 and targets within one image (Go linker limit for amd64 text)", "package initialisers ran (opExpand contents)", "fixRelativeAddr/fixBlock/checkJumpBetween stream-level behaviour (two passes stop at the same boundary; branch-back check) is a trusted contract, not proved"},
		Replay: func(o *Options, g *groupResult, model map[string]string) (string, string, bool) {
			switch {
			case strings.HasPrefix(g.name, "internal/patch.fixIns#"):
				return "internal/patch", c03SuffixReplay, true
			case strings.HasPrefix(g.name, "internal/bytecode.EncodeAddress#"):
				return "internal/bytecode", c03Rel16Replay, true
			}
			return "", "", false
		},
	})
}
