package main

func init() {
	registerProperty(&PropertyConfig{
		ID:      "C19",
		Explain: "interceptDebugInfo is the identity when debug is off; the two wrapper closures return exactly what the wrapped callback/proxy returns (CallSlice iff variadic) and panic only if it panics; rendering for the log is checked for panics",
		Trusted: []string{"reflect model (Call/CallSlice/MakeFunc)", "calls through func values are deterministic functions of (f, args) within one wrapper invocation", "fmt.Sprintf(\"%v\") is total (fmt recovers panics of String methods)"},
	})
}
