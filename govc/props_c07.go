package main

import "strings"

const c07TwoVarsReplay = `package mocker_test

import (
	"testing"

	mocker "github.com/tencent/goom"
)

type demoGreeter interface {
	Greet(name string) string
}

func TestGovcReplay(t *testing.T) {
	mock := mocker.Create()
	defer mock.Reset()
	var g1, g2 demoGreeter
	mock.Interface(&g1).Method("Greet").Apply(func(ctx *mocker.IContext, name string) string { return "one:" + name })
	mock.Interface(&g2).Method("Greet").Apply(func(ctx *mocker.IContext, name string) string { return "two:" + name })
	if g2 == nil {
		t.Fatalf("the second variable of the same interface type was not mocked (still nil)")
	}
	if got := g1.Greet("x"); got != "one:x" {
		t.Errorf("g1.Greet = %q, want one:x (mocking g2 changed g1)", got)
	}
	if got := g2.Greet("x"); got != "two:x" {
		t.Errorf("g2.Greet = %q, want two:x", got)
	}
}
`

func init() {
	registerProperty(&PropertyConfig{
		ID:      "C07",
		Explain: "slot/frame contracts on the fabricated interface value: method slot == index of the named method, every other slot == the panicking default, first mock backs up the variable and Cancel writes exactly that back, stub bytes load the callback's func value (C15) into space from stub.Acquire (C20)",
		Replay: func(o *Options, g *groupResult, model map[string]string) (string, string, bool) {
			if strings.Contains(g.name, ".Builder).Interface#") {
				return ".", c07TwoVarsReplay, true
			}
			return "", "", false
		},
		Trusted: []string{"reflect's method order of an interface type equals the itab slot order", "a fabricated itab is accepted by the runtime", "GC reachability of callbacks embedded in stubs is NOT decided (see DESIGN: retention)"},
	})
}
