package main

import "strings"

const c07RetentionReplay = `package mocker_test

import (
	"fmt"
	"runtime"
	"testing"
	"time"

	mocker "github.com/tencent/goom"
)

type demoSpeaker interface {
	Say(name string) string
	Shout(name string) string
}

type demoState struct{ tag [256]int }

//go:noinline
func mockWith(v *demoSpeaker, st1, st2 *demoState) {
	mock := mocker.Create()
	mock.Interface(v).Method("Say").Apply(func(ctx *mocker.IContext, name string) string {
		return fmt.Sprint("say:", st1.tag[0], name)
	})
	mock.Interface(v).Method("Shout").Apply(func(ctx *mocker.IContext, name string) string {
		return fmt.Sprint("shout:", st2.tag[0], name)
	})
	// the builder is dropped here; the variable keeps holding the mock
}

func TestGovcReplay(t *testing.T) {
	var v demoSpeaker
	collected := make(chan string, 2)
	st1, st2 := &demoState{}, &demoState{}
	runtime.SetFinalizer(st1, func(*demoState) { collected <- "state captured by the Say callback" })
	runtime.SetFinalizer(st2, func(*demoState) { collected <- "state captured by the Shout callback" })
	mockWith(&v, st1, st2)
	st1, st2 = nil, nil
	for i := 0; i < 8; i++ {
		runtime.GC()
		time.Sleep(5 * time.Millisecond)
	}
	select {
	case what := <-collected:
		t.Fatalf("%s was garbage collected although the variable still holds the mock (the stub jumps through a dangling func value)", what)
	default:
	}
	if got := v.Say("x"); got != "say:0x" {
		t.Fatalf("Say = %q", got)
	}
	runtime.KeepAlive(&v)
}
`

const c07TwoVarsReplay = `package mocker_test

import (
	"testing"

	mocker "github.com/tencent/goom"
)

type demoGreeter interface {
	Greet(name string) string
}

func TestGovcReplay(t *testing.T) {
	mock := mocker.Create()
	defer mock.Reset()
	var g1, g2 demoGreeter
	mock.Interface(&g1).Method("Greet").Apply(func(ctx *mocker.IContext, name string) string { return "one:" + name })
	mock.Interface(&g2).Method("Greet").Apply(func(ctx *mocker.IContext, name string) string { return "two:" + name })
	if g2 == nil {
		t.Fatalf("the second variable of the same interface type was not mocked (still nil)")
	}
	if got := g1.Greet("x"); got != "one:x" {
		t.Errorf("g1.Greet = %q, want one:x (mocking g2 changed g1)", got)
	}
	if got := g2.Greet("x"); got != "two:x" {
		t.Errorf("g2.Greet = %q, want two:x", got)
	}
}
`

func init() {
	registerProperty(&PropertyConfig{
		ID:      "C07",
		Explain: "slot/frame contracts on the fabricated interface value: method slot == index of the named method, every other slot == the panicking default, first mock backs up the variable and Cancel writes exactly that back, stub bytes load the callback's func value (C15) into space from stub.Acquire (C20)",
		Replay: func(o *Options, g *groupResult, model map[string]string) (string, string, bool) {
			if strings.Contains(g.name, "iface.GenCallableMethod#") {
				return ".", c07RetentionReplay, true
			}
			if strings.Contains(g.name, ".Builder).Interface#") {
				return ".", c07TwoVarsReplay, true
			}
			return "", "", false
		},
		Trusted: []string{"reflect's method order of an interface type equals the itab slot order", "a fabricated itab is accepted by the runtime", "GC reachability of callbacks embedded in stubs is NOT decided (see DESIGN: retention)"},
	})
}
