package main

func init() {
	registerProperty(&PropertyConfig{
		ID:      "C07",
		Explain: "slot/frame contracts on the fabricated interface value: method slot == index of the named method, every other slot == the panicking default, first mock backs up the variable and Cancel writes exactly that back, stub bytes load the callback's func value (C15) into space from stub.Acquire (C20)",
		Trusted: []string{"reflect's method order of an interface type equals the itab slot order", "a fabricated itab is accepted by the runtime", "GC reachability of callbacks embedded in stubs is NOT decided (see DESIGN: retention)"},
	})
}
