package main

const c12Replay = `package mocker

import "testing"

//go:noinline
func govcC12Target(i int) int { return i + 1 }

// history: stub, then Apply, then Return again through the builder's cached mocker
func TestGovcReplay(t *testing.T) {
	mk := Create()
	defer mk.Reset()
	mk.Func(govcC12Target).When(1).Return(2)
	mk.Func(govcC12Target).Apply(func(int) int { return 100 })
	if got := govcC12Target(5); got != 100 {
		t.Fatalf("after Apply the callback must run: got %d", got)
	}
	mk.Func(govcC12Target).Return(9)
	if got := govcC12Target(5); got != 9 {
		t.Fatalf("a Return given after an Apply must supersede the callback: got %d, want 9", got)
	}
}
`

func init() {
	registerProperty(&PropertyConfig{
		ID:      "C12",
		Explain: "ghost 'running implementation' on mockers: Apply makes the callback what runs, Return/When make the stub what runs and continue an existing configuration; invariant 'a When configuration exists only while its stub is what runs'",
		Trusted: []string{"doApply (proxy+patch layers) installs exactly the implementation it is given (C01/C02/C13 contracts, trusted at this layer)", "the debug wrapper is transparent (C19)", "When.When/Return/Returns and CreateWhen are trusted contracts at this layer"},
		Replay: func(o *Options, g *groupResult, model map[string]string) (string, string, bool) {
			return ".", c12Replay, true
		},
	})
}
