package main

// smt.go — SMT-LIB text helpers and the solver race.

import (
	"bytes"
	"context"
	"fmt"
	"math/big"
	"os"
	"os/exec"
	"path/filepath"
	"regexp"
	"strings"
	"sync/atomic"
	"time"
)

const (
	sortBool = "Bool"
	sortRef  = "Ref"
	sortStr  = "Str"
	sortIfc  = "Iface"
	sortFunc = "Func"
	sortType = "RType" // run-time type identity (reflect.Type identity, dynamic type of an interface)
	sortSl   = "Slice"
	sortInt  = "Int" // mathematical integers: ghost counters only
)

func bvSort(n int) string { return fmt.Sprintf("(_ BitVec %d)", n) }

func isBV(s string) (int, bool) {
	var n int
	if _, err := fmt.Sscanf(s, "(_ BitVec %d)", &n); err == nil {
		return n, true
	}
	return 0, false
}

func arraySort(k, v string) string { return "(Array " + k + " " + v + ")" }

// arrayParts splits "(Array K V)" into K and V.
func arrayParts(s string) (string, string, bool) {
	if !strings.HasPrefix(s, "(Array ") {
		return "", "", false
	}
	body := s[len("(Array ") : len(s)-1]
	// K is the first balanced token
	depth := 0
	for i, c := range body {
		switch c {
		case '(':
			depth++
		case ')':
			depth--
		case ' ':
			if depth == 0 {
				return body[:i], body[i+1:], true
			}
		}
	}
	return "", "", false
}

func bvLit(v *big.Int, n int) string {
	m := new(big.Int).Lsh(big.NewInt(1), uint(n))
	x := new(big.Int).Mod(v, m)
	if x.Sign() < 0 {
		x.Add(x, m)
	}
	if n%4 == 0 {
		return fmt.Sprintf("#x%0*s", n/4, x.Text(16))
	}
	return fmt.Sprintf("#b%0*s", n, x.Text(2))
}

func bvLitI(v int64, n int) string { return bvLit(big.NewInt(v), n) }

func sx(op string, args ...string) string {
	return "(" + op + " " + strings.Join(args, " ") + ")"
}

func smtAnd(xs ...string) string {
	var ys []string
	for _, x := range xs {
		if x == "true" {
			continue
		}
		if x == "false" {
			return "false"
		}
		ys = append(ys, x)
	}
	switch len(ys) {
	case 0:
		return "true"
	case 1:
		return ys[0]
	}
	return sx("and", ys...)
}

func smtOr(xs ...string) string {
	var ys []string
	for _, x := range xs {
		if x == "false" {
			continue
		}
		if x == "true" {
			return "true"
		}
		ys = append(ys, x)
	}
	switch len(ys) {
	case 0:
		return "false"
	case 1:
		return ys[0]
	}
	return sx("or", ys...)
}

func smtNot(x string) string {
	switch x {
	case "true":
		return "false"
	case "false":
		return "true"
	}
	if strings.HasPrefix(x, "(not ") {
		return x[5 : len(x)-1]
	}
	return sx("not", x)
}

func smtImp(a, b string) string {
	if a == "true" {
		return b
	}
	if a == "false" || b == "true" {
		return "true"
	}
	return sx("=>", a, b)
}

func smtIte(c, a, b string) string {
	if c == "true" {
		return a
	}
	if c == "false" {
		return b
	}
	return sx("ite", c, a, b)
}

var identRe = regexp.MustCompile(`[^A-Za-z0-9_.!$]`)

func smtIdent(s string) string {
	s = strings.ReplaceAll(s, "github.com/tencent/goom/", "")
	s = strings.ReplaceAll(s, "/", ".")
	s = strings.ReplaceAll(s, "*", "$p")
	s = strings.ReplaceAll(s, "[]", "$s")
	s = strings.ReplaceAll(s, " ", "")
	s = strings.ReplaceAll(s, "(_BitVec", "bv")
	s = strings.ReplaceAll(s, "(", "$l")
	s = strings.ReplaceAll(s, ")", "$r")
	return identRe.ReplaceAllString(s, "_")
}

// ---------------------------------------------------------------------------
// prelude shared by every query

const smtPrelude = `(set-logic ALL)
(declare-sort Ref 0)
(declare-sort Str 0)
(declare-sort Iface 0)
(declare-sort Func 0)
(declare-sort RType 0)
(declare-sort Float 0)
(declare-datatypes ((Slice 0)) (((mk-slice (s-arr Ref) (s-off (_ BitVec 64)) (s-len (_ BitVec 64)) (s-cap (_ BitVec 64))))))
(declare-const nil Ref)
(declare-const iface_nil Iface)
(declare-const func_nil Func)
(declare-const textref Ref)
(declare-const nilarr Ref)
(declare-fun alive0 (Ref) Bool)
(declare-fun typeof (Iface) RType)
(declare-fun addr_of (Ref) (_ BitVec 64))
(declare-fun ptr_at ((_ BitVec 64)) Ref)
(declare-fun str_len (Str) (_ BitVec 64))
(declare-fun str_concat (Str Str) Str)
`

// ---------------------------------------------------------------------------
// solver race

type SolveResult struct {
	Status  string // "unsat", "sat", "unknown", "timeout", "error"
	Solver  string
	Seconds float64
	Output  string // raw output of the deciding solver (or the last one)
	Model   map[string]string
	All     map[string]string // per-solver status (thorough cross-check)
}

var solverSeconds atomic.Int64 // total solver wall in microseconds

type solverSpec struct {
	name string
	args func(file string, timeoutMs int) []string
}

var solvers = []solverSpec{
	{"z3-new", func(f string, t int) []string { return []string{"z3-new", fmt.Sprintf("-t:%d", t), f} }},
	{"z3", func(f string, t int) []string { return []string{"z3", fmt.Sprintf("-t:%d", t), f} }},
	{"cvc5", func(f string, t int) []string {
		return []string{"cvc5", "--produce-models", fmt.Sprintf("--tlimit=%d", t), f}
	}},
}

func runOne(ctx context.Context, sp solverSpec, file string, timeoutMs int) (status, out string, secs float64) {
	argv := sp.args(file, timeoutMs)
	cctx, cancel := context.WithTimeout(ctx, time.Duration(timeoutMs+2000)*time.Millisecond)
	defer cancel()
	cmd := exec.CommandContext(cctx, argv[0], argv[1:]...)
	var buf bytes.Buffer
	cmd.Stdout = &buf
	cmd.Stderr = &buf
	t0 := time.Now()
	_ = cmd.Run()
	secs = time.Since(t0).Seconds()
	out = buf.String()
	first := strings.TrimSpace(strings.SplitN(out, "\n", 2)[0])
	switch first {
	case "unsat", "sat", "unknown":
		status = first
	default:
		if cctx.Err() != nil || strings.Contains(out, "timeout") || strings.Contains(out, "interrupted") {
			status = "timeout"
		} else {
			status = "error"
		}
	}
	return
}

// solve writes the query to dir/name.smt2 and races the solvers.  z3-new goes
// first alone for a short slice (it decides nearly everything at once); the
// other two join if it has not answered.
func solve(dir, name, query string, getValues []string, timeoutMs int, crossCheck bool) SolveResult {
	file := filepath.Join(dir, smtIdent(name)+".smt2")
	q := query + "(check-sat)\n"
	if len(getValues) > 0 {
		q += "(get-value (" + strings.Join(getValues, " ") + "))\n"
	}
	if err := os.WriteFile(file, []byte(q), 0o644); err != nil {
		return SolveResult{Status: "error", Output: err.Error()}
	}
	type ans struct {
		solver, status, out string
		secs                float64
	}
	ctx, cancel := context.WithCancel(context.Background())
	defer cancel()
	ch := make(chan ans, len(solvers))
	launch := func(sp solverSpec) {
		go func() {
			st, out, secs := runOne(ctx, sp, file, timeoutMs)
			solverSeconds.Add(int64(secs * 1e6))
			ch <- ans{sp.name, st, out, secs}
		}()
	}
	res := SolveResult{Status: "unknown", All: map[string]string{}}
	launch(solvers[0])
	pending := 1
	launched := 1
	head := time.After(1500 * time.Millisecond)
	if crossCheck {
		for _, sp := range solvers[1:] {
			launch(sp)
			pending++
			launched++
		}
	}
	var decided *ans
	for pending > 0 {
		select {
		case a := <-ch:
			pending--
			res.All[a.solver] = a.status
			if a.status == "unsat" || a.status == "sat" {
				if decided == nil {
					aa := a
					decided = &aa
				}
				if !crossCheck {
					pending = 0
				}
			} else if launched < len(solvers) && !crossCheck {
				for _, sp := range solvers[launched:] {
					launch(sp)
					pending++
				}
				launched = len(solvers)
			}
			if decided == nil {
				res.Output = a.out
				res.Solver = a.solver
				res.Seconds += a.secs
				if a.status == "timeout" {
					res.Status = "timeout"
				}
			}
		case <-head:
			if launched < len(solvers) && !crossCheck {
				for _, sp := range solvers[launched:] {
					launch(sp)
					pending++
				}
				launched = len(solvers)
			}
		}
	}
	if decided != nil {
		res.Status = decided.status
		res.Solver = decided.solver
		res.Seconds = decided.secs
		res.Output = decided.out
		if decided.status == "sat" {
			res.Model = parseGetValue(decided.out)
		}
	}
	if crossCheck {
		seen := ""
		for _, st := range res.All {
			if st == "sat" || st == "unsat" {
				if seen != "" && seen != st {
					res.Status = "error"
					res.Output = fmt.Sprintf("solvers disagree: %v", res.All)
				}
				seen = st
			}
		}
	}
	return res
}

// parseGetValue parses "((term value) (term value) ...)" into a map keyed by
// the term text.
func parseGetValue(out string) map[string]string {
	i := strings.Index(out, "\n")
	if i < 0 {
		return nil
	}
	s := strings.TrimSpace(out[i+1:])
	if !strings.HasPrefix(s, "(") {
		return nil
	}
	m := map[string]string{}
	// tokenise into s-expressions at depth 1
	depth := 0
	start := -1
	for idx := 0; idx < len(s); idx++ {
		switch s[idx] {
		case '(':
			depth++
			if depth == 2 {
				start = idx
			}
		case ')':
			if depth == 2 && start >= 0 {
				pair := s[start+1 : idx]
				k, v := splitPair(pair)
				m[k] = v
				start = -1
			}
			depth--
		}
	}
	return m
}

func splitPair(p string) (string, string) {
	p = strings.TrimSpace(p)
	// the key is the first balanced token
	depth := 0
	for i := 0; i < len(p); i++ {
		switch p[i] {
		case '(':
			depth++
		case ')':
			depth--
		case ' ', '\n', '\t':
			if depth == 0 {
				return strings.Join(strings.Fields(p[:i]), " "), strings.TrimSpace(p[i+1:])
			}
		}
	}
	return p, ""
}

// bvValue parses #x.. / #b.. into a big.Int (unsigned).
func bvValue(s string) (*big.Int, bool) {
	s = strings.TrimSpace(s)
	v := new(big.Int)
	if strings.HasPrefix(s, "#x") {
		_, ok := v.SetString(s[2:], 16)
		return v, ok
	}
	if strings.HasPrefix(s, "#b") {
		_, ok := v.SetString(s[2:], 2)
		return v, ok
	}
	if strings.HasPrefix(s, "(_ bv") {
		var n, w int64
		if _, err := fmt.Sscanf(s, "(_ bv%d %d)", &n, &w); err == nil {
			return big.NewInt(n), true
		}
	}
	return nil, false
}
